package main

// C19 - semantic edits (mro edit) preserve behaviour.
//
// gen:    random compiling MRO file sets (one to three files tied by
//         @include; user file type, struct, stages with retains and splits,
//         nested / aliased / mapped pipeline calls, the same callable called
//         twice, wildcard bindings from self and from a call, struct
//         projections, disabled modifiers bound to self and to call outputs,
//         pipeline retains, unused calls and outputs) and, for each, EVERY
//         applicable edit on every callable and parameter: rename callable
//         (fresh name and a name colliding with a call alias), rename
//         input / output (fresh and colliding with an output / input of the
//         same callable), remove input, remove output, remove unused outputs,
//         remove unused calls, and the rename round trip.  The edit is applied
//         exactly as cmd/mro/edit does (compiled Asts -> refactoring.Refactor
//         -> Apply on the unchecked parse of each file -> Format), the result
//         recompiled, and the compiled Asts before and after are dumped
//         (astdump) for the Coq validator.
// impl:   redoes the edit from the sources; prints its status and whether the
//         dump is reproduced.
// oracle: the property read on the implementation: the edited files compile,
//         and the MakeCallGraph JSON of the top-level call is the original one
//         up to the renamed identifiers / the removed elements.

import (
	"encoding/json"
	"fmt"
	"os"
	"path/filepath"
	"sort"
	"strconv"
	"strings"

	"github.com/martian-lang/martian/martian/syntax"
	"github.com/martian-lang/martian/martian/syntax/refactoring"
	"github.com/martian-lang/martian/martian/util"
	"verifharness/internal/astdump"
	"verifharness/internal/hx"
)

func init() {
	props["c19"] = &propCmd{gen: c19Gen, impl: c19Impl, oracle: c19Oracle,
		extra: map[string]func([]string){"show": c19Show, "coq": c19Coq, "try": c19Try}}
}

// ------------------------------------------------------------ program model

type c19Param struct{ Name, T string }

type c19Stage struct {
	Name      string
	Ins, Outs []c19Param
	Retain    []string
	Split     bool
}

type c19Bind struct{ Id, E string }

type c19Call struct {
	Dec, Alias                 string
	Binds                      []c19Bind
	Map                        bool
	Disabled                   string
	Preflight, Volatile, Local bool
}

func (c *c19Call) id() string {
	if c.Alias != "" {
		return c.Alias
	}
	return c.Dec
}

type c19Pipe struct {
	Name      string
	Ins, Outs []c19Param
	Calls     []*c19Call
	Ret       []c19Bind
	Retain    []string
}

type c19Prog struct {
	Stages []*c19Stage
	Pipes  []*c19Pipe // callees first; the last one is the top pipeline
	Top    c19Call
	Layout int // 0 one file, 1 main+stages, 2 main+pipes+stages
}

type c19Files map[string]string

func c19Enc(f c19Files) string {
	b, _ := json.Marshal(f)
	return hx.H(string(b))
}

func c19Dec(s string) c19Files {
	var f c19Files
	if err := json.Unmarshal([]byte(hx.U(s)), &f); err != nil {
		panic(err)
	}
	return f
}

// ------------------------------------------------------------ rendering

func c19Params(sb *strings.Builder, ps []c19Param, mode string) {
	for _, p := range ps {
		fmt.Fprintf(sb, "    %s %s %s,\n", mode, p.T, p.Name)
	}
}

func (c *c19Call) render(sb *strings.Builder, ind string) {
	sb.WriteString(ind)
	if c.Map {
		sb.WriteString("map ")
	}
	sb.WriteString("call " + c.Dec)
	if c.Alias != "" {
		sb.WriteString(" as " + c.Alias)
	}
	sb.WriteString("(\n")
	for _, b := range c.Binds {
		fmt.Fprintf(sb, "%s    %s = %s,\n", ind, b.Id, b.E)
	}
	sb.WriteString(ind + ")")
	var mods []string
	if c.Disabled != "" {
		mods = append(mods, "disabled = "+c.Disabled)
	}
	if c.Local {
		mods = append(mods, "local = true")
	}
	if c.Preflight {
		mods = append(mods, "preflight = true")
	}
	if c.Volatile {
		mods = append(mods, "volatile = true")
	}
	if len(mods) > 0 {
		sb.WriteString(" using (\n")
		for _, m := range mods {
			fmt.Fprintf(sb, "%s    %s,\n", ind, m)
		}
		sb.WriteString(ind + ")")
	}
	sb.WriteString("\n")
}

func (p *c19Prog) render() c19Files {
	var st, pi, mn strings.Builder
	st.WriteString("filetype txt;\n\nstruct Pair(\n    int a,\n    txt f,\n)\n")
	for _, s := range p.Stages {
		fmt.Fprintf(&st, "\nstage %s(\n", s.Name)
		c19Params(&st, s.Ins, "in ")
		c19Params(&st, s.Outs, "out")
		fmt.Fprintf(&st, "    src py \"stages/%s\",\n)", strings.ToLower(s.Name))
		if s.Split {
			st.WriteString(" split (\n    in  int chunk,\n    out txt part,\n)")
		}
		if len(s.Retain) > 0 {
			st.WriteString(" retain (\n")
			for _, r := range s.Retain {
				fmt.Fprintf(&st, "    %s,\n", r)
			}
			st.WriteString(")")
		}
		st.WriteString("\n")
	}
	for i, pl := range p.Pipes {
		w := &pi
		if i == len(p.Pipes)-1 {
			w = &mn
		}
		fmt.Fprintf(w, "\npipeline %s(\n", pl.Name)
		c19Params(w, pl.Ins, "in ")
		c19Params(w, pl.Outs, "out")
		w.WriteString(")\n{\n")
		for _, c := range pl.Calls {
			c.render(w, "    ")
			w.WriteString("\n")
		}
		w.WriteString("    return (\n")
		for _, b := range pl.Ret {
			fmt.Fprintf(w, "        %s = %s,\n", b.Id, b.E)
		}
		w.WriteString("    )\n")
		if len(pl.Retain) > 0 {
			w.WriteString("\n    retain (\n")
			for _, r := range pl.Retain {
				fmt.Fprintf(w, "        %s,\n", r)
			}
			w.WriteString("    )\n")
		}
		w.WriteString("}\n")
	}
	mn.WriteString("\n")
	p.Top.render(&mn, "")
	switch p.Layout {
	case 1:
		return c19Files{"main.mro": "@include \"stages.mro\"\n" + pi.String() + mn.String(), "stages.mro": st.String()}
	case 2:
		return c19Files{"main.mro": "@include \"pipes.mro\"\n" + mn.String(),
			"pipes.mro":  "@include \"stages.mro\"\n" + pi.String(),
			"stages.mro": st.String()}
	}
	return c19Files{"main.mro": st.String() + pi.String() + mn.String()}
}

// ------------------------------------------------------------ generation

// several names are prefixes of others (ba/bar/baz, val/valid, x/x_count,
// foo/foo2): a rename must match whole identifiers
var c19Names = []string{"foo", "bar", "baz", "val", "x", "y", "ba", "valid", "x_count", "foo2"}
var c19Scalars = []string{"int", "int", "string", "bool", "txt", "txt", "Pair"}
var c19Types = []string{"int", "int", "string", "bool", "txt", "txt", "Pair", "int[]", "txt[]", "map<int>"}

func c19Elem(t string) string { return strings.TrimSuffix(t, "[]") }

func c19Lit(r *hx.Rng, t string) string {
	// a bool may end up bound to a disabled modifier, which refuses null
	if t != "bool" && r.Intn(10) == 0 {
		return "null"
	}
	switch t {
	case "int":
		return strconv.Itoa(r.Intn(50))
	case "string":
		return strconv.Quote(hx.Pick(r, []string{"s", "a b", ""}))
	case "bool":
		return hx.Pick(r, []string{"true", "false"})
	case "txt":
		return fmt.Sprintf("\"/data/f%d.txt\"", r.Intn(9))
	case "Pair":
		return fmt.Sprintf("{\n            a: %d,\n            f: \"/data/p%d.txt\",\n        }", r.Intn(9), r.Intn(9))
	case "map<int>":
		return fmt.Sprintf("{\n            \"k\": %d,\n        }", r.Intn(9))
	}
	if strings.HasSuffix(t, "[]") {
		if r.Bool() {
			return "[]"
		}
		return "[" + c19Lit(r, c19Elem(t)) + "]"
	}
	return "null"
}

type c19Src struct{ ref, t string }

type c19Scope struct {
	r     *hx.Rng
	pipe  *c19Pipe
	avail []c19Src
}

func (s *c19Scope) add(ref, t string) {
	s.avail = append(s.avail, c19Src{ref, t})
	switch t {
	case "Pair":
		s.avail = append(s.avail, c19Src{ref + ".a", "int"}, c19Src{ref + ".f", "txt"})
	case "Pair[]":
		s.avail = append(s.avail, c19Src{ref + ".a", "int[]"}, c19Src{ref + ".f", "txt[]"})
	}
}

func (s *c19Scope) newInput(t string) string {
	used := map[string]bool{}
	for _, p := range s.pipe.Ins {
		used[p.Name] = true
	}
	name := ""
	for _, n := range c19Names {
		if !used[n] && s.r.Intn(2) == 0 {
			name = n
			break
		}
	}
	if name == "" {
		for i := 0; ; i++ {
			name = fmt.Sprintf("in%d", i)
			if !used[name] {
				break
			}
		}
	}
	s.pipe.Ins = append(s.pipe.Ins, c19Param{name, t})
	s.add("self."+name, t)
	return "self." + name
}

func (s *c19Scope) exp(t string, depth int) string {
	r := s.r
	var cands []string
	for _, a := range s.avail {
		if a.t == t {
			cands = append(cands, a.ref)
		}
	}
	if strings.HasSuffix(t, "[]") && depth < 2 {
		// the same output of one callable through two of its aliases, in one
		// expression (an edit of that output has to rewrite both)
		byOut := map[string][]string{}
		var outs []string
		for _, a := range s.avail {
			if i := strings.IndexByte(a.ref, '.'); a.t == c19Elem(t) && i > 0 && !strings.HasPrefix(a.ref, "self.") && strings.Count(a.ref, ".") == 1 {
				o := a.ref[i+1:]
				if len(byOut[o]) == 0 {
					outs = append(outs, o)
				}
				byOut[o] = append(byOut[o], a.ref)
			}
		}
		for _, o := range outs {
			if len(byOut[o]) >= 2 && r.Intn(3) != 0 {
				return "[" + strings.Join(byOut[o], ", ") + "]"
			}
		}
	}
	if len(cands) > 0 && r.Intn(4) != 0 {
		return hx.Pick(r, cands)
	}
	if depth < 2 {
		switch {
		case strings.HasSuffix(t, "[]") && r.Intn(2) == 0:
			n := 1 + r.Intn(3)
			parts := make([]string, n)
			for i := range parts {
				parts[i] = s.exp(c19Elem(t), depth+1)
			}
			return "[" + strings.Join(parts, ", ") + "]"
		case t == "Pair" && r.Intn(2) == 0:
			return "{a: " + s.exp("int", depth+1) + ", f: " + s.exp("txt", depth+1) + "}"
		case t == "map<int>" && r.Intn(2) == 0:
			return "{\"k0\": " + s.exp("int", depth+1) + ", \"k1\": " + s.exp("int", depth+1) + "}"
		}
	}
	if r.Intn(3) == 0 {
		return c19Lit(r, t)
	}
	return s.newInput(t)
}

// a plain reference of the given type (for disabled / retain / split)
func (s *c19Scope) ref(t string, create bool) string {
	var cands []string
	for _, a := range s.avail {
		if a.t == t {
			cands = append(cands, a.ref)
		}
	}
	if len(cands) > 0 && (!create || s.r.Intn(3) != 0) {
		return hx.Pick(s.r, cands)
	}
	if create {
		return s.newInput(t)
	}
	return ""
}

func c19ParamList(r *hx.Rng, n int, types []string) []c19Param {
	var ps []c19Param
	used := map[string]bool{}
	for len(ps) < n {
		name := hx.Pick(r, c19Names)
		if used[name] {
			continue
		}
		used[name] = true
		ps = append(ps, c19Param{name, hx.Pick(r, types)})
	}
	return ps
}

type c19Callee struct {
	name      string
	ins, outs []c19Param
}

func c19GenProg(r *hx.Rng) *c19Prog {
	p := &c19Prog{Layout: r.Intn(3)}
	ns := 3 + r.Intn(2)
	var callees []c19Callee
	for i := 0; i < ns; i++ {
		s := &c19Stage{Name: fmt.Sprintf("S%d", i)}
		s.Ins = c19ParamList(r, 1+r.Intn(3), c19Types)
		s.Outs = c19ParamList(r, 1+r.Intn(3), c19Types)
		if i == 0 {
			// guaranteed struct, flag and file outputs somewhere
			s.Outs = append(c19ParamList(r, 1, c19Types)[:1], c19Param{"pair", "Pair"}, c19Param{"flag", "bool"}, c19Param{"res", "txt"})
			if s.Outs[0].Name == "pair" || s.Outs[0].Name == "flag" || s.Outs[0].Name == "res" {
				s.Outs = s.Outs[1:]
			}
		}
		for _, o := range s.Outs {
			if (o.T == "txt" || o.T == "txt[]") && r.Intn(3) == 0 {
				s.Retain = append(s.Retain, o.Name)
			}
		}
		s.Split = r.Intn(4) == 0
		p.Stages = append(p.Stages, s)
		callees = append(callees, c19Callee{s.Name, s.Ins, s.Outs})
	}
	np := 2 + r.Intn(2)
	pnames := []string{"INNER", "MID", "OUTER"}
	if np == 2 {
		pnames = []string{"INNER", "OUTER"}
	}
	aliases := []string{"ALT", "FIRST", "XTRA", "RUN"}
	for pi := 0; pi < np; pi++ {
		pl := &c19Pipe{Name: pnames[pi]}
		sc := &c19Scope{r: r, pipe: pl}
		ncalls := 2 + r.Intn(3)
		used := map[string]bool{}
		for ci := 0; ci < ncalls; ci++ {
			var cal c19Callee
			if pi > 0 && ci == 0 {
				cal = callees[len(callees)-1] // the previous pipeline
			} else if ci > 0 && r.Intn(4) == 0 {
				cal = callees[0]
				for _, c := range pl.Calls {
					if r.Bool() {
						for _, k := range callees {
							if k.name == c.Dec {
								cal = k
							}
						}
					}
				}
			} else {
				cal = callees[r.Intn(ns)]
			}
			c := &c19Call{Dec: cal.name}
			if used[cal.name] || r.Intn(4) == 0 {
				for _, a := range aliases {
					if !used[a] && r.Intn(2) == 0 {
						c.Alias = a
						break
					}
				}
				if c.Alias == "" && used[cal.name] {
					c.Alias = fmt.Sprintf("CALL%d", ci)
				}
			}
			used[c.id()] = true
			c.Volatile = r.Intn(6) == 0
			c.Local = r.Intn(8) == 0
			c.Preflight = false
			// mapped call over one scalar input
			mapIn := -1
			if r.Intn(4) == 0 {
				for k, in := range cal.ins {
					if !strings.Contains(in.T, "[") && !strings.Contains(in.T, "<") {
						mapIn = k
						break
					}
				}
			}
			// wildcard: from self, or from an earlier call whose outputs share names
			wild := ""
			if mapIn < 0 && r.Intn(4) == 0 {
				wild = "self"
			} else if mapIn < 0 && len(pl.Calls) > 0 && r.Intn(5) == 0 {
				wild = "call"
			}
			wildUsed := false
			for k, in := range cal.ins {
				if k == mapIn {
					c.Map = true
					c.Binds = append(c.Binds, c19Bind{in.Name, "split " + sc.ref(in.T+"[]", true)})
					continue
				}
				if wild == "self" && r.Intn(3) != 0 {
					ok, have := true, false
					for _, q := range pl.Ins {
						if q.Name == in.Name {
							have = true
							ok = q.T == in.T
						}
					}
					if ok {
						if !have {
							pl.Ins = append(pl.Ins, in)
							sc.add("self."+in.Name, in.T)
						}
						wildUsed = true
						continue
					}
				}
				c.Binds = append(c.Binds, c19Bind{in.Name, sc.exp(in.T, 0)})
			}
			if wild == "self" && wildUsed {
				// every other pipeline input with a name of the callee must have its type,
				// and must not be bound explicitly as well
				ok := true
				for _, q := range pl.Ins {
					for _, in := range cal.ins {
						if q.Name == in.Name && q.T != in.T {
							ok = false
						}
					}
				}
				if ok {
					var kept []c19Bind
					for _, b := range c.Binds {
						drop := false
						for _, q := range pl.Ins {
							if q.Name == b.Id && !strings.HasPrefix(b.E, "split ") {
								drop = true
							}
						}
						if !drop {
							kept = append(kept, b)
						}
					}
					c.Binds = append(kept, c19Bind{"*", "self"})
				} else {
					// fall back to explicit bindings
					for _, in := range cal.ins {
						found := false
						for _, b := range c.Binds {
							if b.Id == in.Name {
								found = true
							}
						}
						if !found {
							c.Binds = append(c.Binds, c19Bind{in.Name, "self." + in.Name})
						}
					}
				}
			}
			if wild == "call" {
				// * = EARLIER when every same-named output has the input's type
				for _, prev := range pl.Calls {
					if prev.Map {
						continue
					}
					var pc c19Callee
					for _, k := range callees {
						if k.name == prev.Dec {
							pc = k
						}
					}
					match, ok := 0, true
					for _, o := range pc.outs {
						for _, in := range cal.ins {
							if o.Name == in.Name {
								if o.T == in.T {
									match++
								} else {
									ok = false
								}
							}
						}
					}
					if ok && match > 0 {
						var kept []c19Bind
						for _, b := range c.Binds {
							drop := false
							for _, o := range pc.outs {
								if o.Name == b.Id {
									drop = true
								}
							}
							if !drop {
								kept = append(kept, b)
							}
						}
						c.Binds = append(kept, c19Bind{"*", prev.id()})
						break
					}
				}
			}
			if r.Intn(3) == 0 {
				c.Disabled = sc.ref("bool", r.Intn(2) == 0)
			} else if ci > 0 && !used["GATE"] && r.Intn(5) == 0 {
				// a call whose ONLY consumer is a disabled modifier
				gate := &c19Call{Dec: callees[0].name, Alias: "GATE"}
				for _, in := range callees[0].ins {
					gate.Binds = append(gate.Binds, c19Bind{in.Name, sc.exp(in.T, 0)})
				}
				used["GATE"] = true
				pl.Calls = append(pl.Calls, gate)
				c.Disabled = "GATE.flag"
			}
			pl.Calls = append(pl.Calls, c)
			for _, o := range cal.outs {
				t := o.T
				if c.Map {
					if strings.Contains(t, "<") || strings.HasSuffix(t, "[][]") {
						continue
					}
					t += "[]"
				}
				if t == "Pair[][]" || strings.Count(t, "[]") > 2 {
					continue
				}
				sc.add(c.id()+"."+o.Name, t)
			}
		}
		// outputs
		usedOut := map[string]bool{}
		var callRefs []c19Src
		for _, a := range sc.avail {
			if !strings.HasPrefix(a.ref, "self.") {
				callRefs = append(callRefs, a)
			}
		}
		nout := 1 + r.Intn(3)
		for k := 0; k < nout && len(callRefs) > 0; k++ {
			a := hx.Pick(r, callRefs)
			if strings.Count(a.t, "[]") > 1 {
				continue
			}
			name := hx.Pick(r, append([]string{"out0", "out1", "res"}, c19Names...))
			if usedOut[name] {
				continue
			}
			usedOut[name] = true
			e := a.ref
			t := a.t
			if !strings.Contains(t, "[") && !strings.Contains(t, "<") && r.Intn(4) == 0 {
				e = "[" + a.ref + ", " + sc.exp(t, 1) + "]"
				t += "[]"
			}
			pl.Outs = append(pl.Outs, c19Param{name, t})
			pl.Ret = append(pl.Ret, c19Bind{name, e})
		}
		if len(pl.Outs) == 0 {
			pl.Outs = append(pl.Outs, c19Param{"out0", "int"})
			pl.Ret = append(pl.Ret, c19Bind{"out0", sc.exp("int", 1)})
		}
		if r.Intn(2) == 0 {
			if ref := func() string {
				var c []string
				for _, a := range callRefs {
					if a.t == "txt" || a.t == "txt[]" {
						c = append(c, a.ref)
					}
				}
				if len(c) == 0 {
					return ""
				}
				return hx.Pick(r, c)
			}(); ref != "" {
				pl.Retain = append(pl.Retain, ref)
			}
		}
		if len(pl.Ins) == 0 {
			pl.Ins = append(pl.Ins, c19Param{"unused_in", "int"})
		}
		p.Pipes = append(p.Pipes, pl)
		callees = append(callees, c19Callee{pl.Name, pl.Ins, pl.Outs})
	}
	top := p.Pipes[len(p.Pipes)-1]
	p.Top = c19Call{Dec: top.Name}
	for _, in := range top.Ins {
		p.Top.Binds = append(p.Top.Binds, c19Bind{in.Name, c19Lit(r, in.T)})
	}
	return p
}

// ------------------------------------------------------------ edits

// c19Edit is one request to mro edit.
type c19Edit struct {
	Kind     string // rename rename_in rename_out remove_in remove_out unused_outs unused_calls unused_both
	Callable string
	Param    string
	New      string
	Note     string // fresh / collide_alias / collide_param
	// Kind "combo": several edits given to ONE Refactor invocation, as
	// `mro edit --rename X=Y --rename-output Y.o=p --remove-unused-calls`
	// allows.  Refactor performs them in the order renames, input renames,
	// output renames, input removals, output removals, unused calls/outputs,
	// each on the Asts the earlier ones already modified; so later sub-edits
	// name callables by their NEW names.  Callable holds the encoded list.
	Subs []c19Edit
}

func (e c19Edit) String() string {
	return fmt.Sprintf("%s %s %s %s %s", e.Kind, hx.H(e.Callable), hx.H(e.Param), hx.H(e.New), e.Note)
}

func c19Combo(note string, subs ...c19Edit) c19Edit {
	parts := make([]string, len(subs))
	for i, s := range subs {
		parts[i] = strings.Join([]string{s.Kind, hx.H(s.Callable), hx.H(s.Param), hx.H(s.New), s.Note}, ",")
	}
	return c19Edit{Kind: "combo", Callable: strings.Join(parts, ";"), Note: note, Subs: subs}
}

func c19EditOf(f []string) c19Edit {
	e := c19Edit{Kind: f[0], Callable: hx.U(f[1]), Param: hx.U(f[2]), New: hx.U(f[3]), Note: f[4]}
	if e.Kind == "combo" {
		for _, part := range strings.Split(e.Callable, ";") {
			e.Subs = append(e.Subs, c19EditOf(strings.Split(part, ",")))
		}
	}
	return e
}

// the name a callable has after the callable renames of a combo
func (e c19Edit) renamed(name string) string {
	for _, s := range e.Subs {
		if s.Kind == "rename" && s.Callable == name {
			name = s.New
		}
	}
	return name
}

// the name a callable had before the callable renames of a combo
func (e c19Edit) original(name string) string {
	for i := len(e.Subs) - 1; i >= 0; i-- {
		if s := e.Subs[i]; s.Kind == "rename" && s.New == name {
			name = s.Callable
		}
	}
	return name
}

func (e c19Edit) config(top string) refactoring.RefactorConfig {
	var c refactoring.RefactorConfig
	if e.Kind == "combo" {
		top = e.renamed(top)
		for _, s := range e.Subs {
			k := s.config(top)
			c.Rename = append(c.Rename, k.Rename...)
			c.RenameInParam = append(c.RenameInParam, k.RenameInParam...)
			c.RenameOutParam = append(c.RenameOutParam, k.RenameOutParam...)
			c.RemoveInParams = append(c.RemoveInParams, k.RemoveInParams...)
			c.RemoveOutParams = append(c.RemoveOutParams, k.RemoveOutParams...)
			c.RemoveCalls = c.RemoveCalls || k.RemoveCalls
			if k.TopCalls != nil {
				c.TopCalls = k.TopCalls
			}
		}
		return c
	}
	cp := refactoring.CallableParam{Callable: e.Callable, Param: e.Param}
	switch e.Kind {
	case "rename":
		c.Rename = []refactoring.Rename{{Callable: e.Callable, NewName: e.New}}
	case "rename_in":
		c.RenameInParam = []refactoring.RenameParam{{CallableParam: cp, NewName: e.New}}
	case "rename_out":
		c.RenameOutParam = []refactoring.RenameParam{{CallableParam: cp, NewName: e.New}}
	case "remove_in":
		c.RemoveInParams = []refactoring.CallableParam{cp}
	case "remove_out":
		c.RemoveOutParams = []refactoring.CallableParam{cp}
	case "unused_outs":
		c.TopCalls = refactoring.StringSet{top: struct{}{}}
	case "unused_calls":
		c.RemoveCalls = true
	case "unused_both":
		c.RemoveCalls = true
		c.TopCalls = refactoring.StringSet{top: struct{}{}}
	}
	return c
}

// inverse of a rename, for the round trip
func (e c19Edit) inverse() (c19Edit, bool) {
	switch e.Kind {
	case "rename":
		return c19Edit{Kind: e.Kind, Callable: e.New, New: e.Callable, Note: "back"}, true
	case "rename_in", "rename_out":
		return c19Edit{Kind: e.Kind, Callable: e.Callable, Param: e.New, New: e.Param, Note: "back"}, true
	}
	return e, false
}

func c19Edits(p *c19Prog) []c19Edit {
	var out []c19Edit
	aliasSeen := map[string]bool{}
	var aliases []string
	for _, pl := range p.Pipes {
		for _, c := range pl.Calls {
			if c.Alias != "" && !aliasSeen[c.Alias] {
				aliasSeen[c.Alias] = true
				aliases = append(aliases, c.Alias)
			}
		}
	}
	type cal struct {
		name      string
		ins, outs []c19Param
		stage     bool
	}
	var cals []cal
	for _, s := range p.Stages {
		cals = append(cals, cal{s.Name, s.Ins, s.Outs, true})
	}
	for _, pl := range p.Pipes {
		cals = append(cals, cal{pl.Name, pl.Ins, pl.Outs, false})
	}
	has := func(ps []c19Param, n string) bool {
		for _, q := range ps {
			if q.Name == n {
				return true
			}
		}
		return false
	}
	for _, c := range cals {
		out = append(out, c19Edit{Kind: "rename", Callable: c.name, New: "NEWNAME", Note: "fresh"})
		for _, a := range aliases {
			out = append(out, c19Edit{Kind: "rename", Callable: c.name, New: a, Note: "collide_alias"})
		}
		for _, in := range c.ins {
			out = append(out, c19Edit{Kind: "rename_in", Callable: c.name, Param: in.Name, New: "renamed", Note: "fresh"})
			for _, o := range c.outs {
				if !has(c.ins, o.Name) {
					out = append(out, c19Edit{Kind: "rename_in", Callable: c.name, Param: in.Name, New: o.Name, Note: "collide_param"})
					break
				}
			}
			if c.stage {
				// an input of a pipeline is used by its calls; only a stage input can be dropped
				out = append(out, c19Edit{Kind: "remove_in", Callable: c.name, Param: in.Name, Note: "-"})
			}
		}
		for _, o := range c.outs {
			out = append(out, c19Edit{Kind: "rename_out", Callable: c.name, Param: o.Name, New: "renamed", Note: "fresh"})
			for _, in := range c.ins {
				if !has(c.outs, in.Name) {
					out = append(out, c19Edit{Kind: "rename_out", Callable: c.name, Param: o.Name, New: in.Name, Note: "collide_param"})
					break
				}
			}
			out = append(out, c19Edit{Kind: "remove_out", Callable: c.name, Param: o.Name, Note: "-"})
		}
	}
	for _, k := range []string{"unused_outs", "unused_calls", "unused_both"} {
		out = append(out, c19Edit{Kind: k, Note: "-"})
	}
	// several edits in one invocation: every callable rename (fresh, and onto
	// an alias in use, which forces aliases) combined with a second and third
	// edit that has to find the renamed callable's calls again
	for ci, c := range cals {
		targets := []string{"NEWNAME"}
		if len(aliases) > 0 {
			targets = append(targets, aliases[ci%len(aliases)])
		}
		for ti, y := range targets {
			note := "fresh"
			if ti > 0 {
				note = "collide_alias"
			}
			ren := c19Edit{Kind: "rename", Callable: c.name, New: y, Note: note}
			var ro, ri c19Edit
			if len(c.outs) > 0 {
				o := c.outs[(ci+ti)%len(c.outs)]
				ro = c19Edit{Kind: "rename_out", Callable: y, Param: o.Name, New: "renamed", Note: "fresh"}
				out = append(out, c19Combo(note, ren, ro))
				out = append(out, c19Combo(note, ren, c19Edit{Kind: "remove_out", Callable: y, Param: o.Name, Note: "-"}))
			}
			if len(c.ins) > 0 {
				in := c.ins[(ci+ti)%len(c.ins)]
				ri = c19Edit{Kind: "rename_in", Callable: y, Param: in.Name, New: "renamed", Note: "fresh"}
				out = append(out, c19Combo(note, ren, ri))
				if c.stage {
					out = append(out, c19Combo(note, ren, c19Edit{Kind: "remove_in", Callable: y, Param: in.Name, Note: "-"}))
				}
			}
			if ro.Kind != "" && ri.Kind != "" {
				out = append(out, c19Combo(note, ren, ri, ro))
				out = append(out, c19Combo(note, ren, ro, c19Edit{Kind: "unused_both", Note: "-"}))
			}
			out = append(out, c19Combo(note, ren, c19Edit{Kind: "unused_calls", Note: "-"}))
			out = append(out, c19Combo(note, ren, c19Edit{Kind: "unused_both", Note: "-"}))
		}
		// parameter edits combined with each other and with the removals
		if len(c.outs) > 0 && len(c.ins) > 0 {
			o, in := c.outs[ci%len(c.outs)], c.ins[ci%len(c.ins)]
			ro := c19Edit{Kind: "rename_out", Callable: c.name, Param: o.Name, New: "renamed", Note: "fresh"}
			ri := c19Edit{Kind: "rename_in", Callable: c.name, Param: in.Name, New: "renamed", Note: "fresh"}
			out = append(out, c19Combo("fresh", ri, ro))
			out = append(out, c19Combo("fresh", ro, c19Edit{Kind: "unused_both", Note: "-"}))
		}
	}
	// two callables renamed at once, the second onto the OLD name of the first
	if len(cals) >= 2 {
		for ci := 0; ci+1 < len(cals); ci += 2 {
			a, b := cals[ci], cals[ci+1]
			out = append(out, c19Combo("fresh", c19Edit{Kind: "rename", Callable: a.name, New: "NEWNAME", Note: "fresh"},
				c19Edit{Kind: "rename", Callable: b.name, New: a.name, Note: "fresh"}))
		}
	}
	return out
}

// ------------------------------------------------------------ the edit, as cmd/mro/edit does it

var c19Dir string
var c19DirN int

func c19Scratch(f c19Files) string {
	if c19Dir == "" {
		d, err := os.MkdirTemp("", "c19_mro_")
		if err != nil {
			panic(err)
		}
		c19Dir = d
	}
	c19DirN++
	// one directory name per file set would make DefiningFile differ between
	// runs; a fixed name keeps the dumps reproducible
	d := filepath.Join(c19Dir, "w")
	os.RemoveAll(d)
	os.MkdirAll(d, 0o755)
	for name, body := range f {
		if err := os.WriteFile(filepath.Join(d, name), []byte(body), 0o644); err != nil {
			panic(err)
		}
	}
	return d
}

func c19Cleanup() {
	if c19Dir != "" {
		os.RemoveAll(c19Dir)
	}
}

type c19Quiet struct{}

func (c19Quiet) Write(b []byte) (int, error)       { return len(b), nil }
func (c19Quiet) WriteString(s string) (int, error) { return len(s), nil }

func c19Silence() {
	util.SetPrintLogger(c19Quiet{})
	// the refactoring package reports what it removes on os.Stderr
	if os.Getenv("C19_VERBOSE") == "" {
		if f, err := os.OpenFile(os.DevNull, os.O_WRONLY, 0); err == nil {
			c19Stderr = os.Stderr
			os.Stderr = f
		}
	}
}

var c19Stderr = os.Stderr

func c19Compile(f c19Files) (*syntax.Ast, error) {
	d := c19Scratch(f)
	_, _, ast, err := syntax.Compile(filepath.Join(d, "main.mro"), []string{d}, false)
	return ast, err
}

func c19FileNames(f c19Files) []string {
	names := make([]string, 0, len(f))
	for n := range f {
		names = append(names, n)
	}
	sort.Strings(names)
	return names
}

// c19Apply returns the edited file set.  status: ok, noedit (Refactor returned
// no edit), referr (Refactor failed), applyerr, panic.
func c19Apply(f c19Files, e c19Edit, top string) (out c19Files, status string, detail string) {
	defer func() {
		if x := recover(); x != nil {
			out, status, detail = nil, "panic", fmt.Sprint(x)
		}
	}()
	d := c19Scratch(f)
	var parser syntax.Parser
	names := c19FileNames(f)
	var asts []*syntax.Ast
	for _, n := range names {
		_, _, ast, err := parser.ParseSourceBytes([]byte(f[n]), filepath.Join(d, n), []string{d}, false)
		if err != nil {
			return nil, "origerr", err.Error()
		}
		asts = append(asts, ast)
	}
	edit, err := refactoring.Refactor(asts, e.config(top))
	if err != nil {
		return nil, "referr", err.Error()
	}
	if edit == nil {
		return f, "noedit", ""
	}
	out = c19Files{}
	for _, n := range names {
		ast, err := parser.UncheckedParse([]byte(f[n]), filepath.Join(d, n))
		if err != nil {
			return nil, "applyerr", err.Error()
		}
		count, err := edit.Apply(ast)
		if err != nil {
			return nil, "applyerr", err.Error()
		}
		if count == 0 {
			out[n] = f[n]
		} else {
			out[n] = ast.Format()
		}
	}
	return out, "ok", ""
}

// error kind: the leading CamelCase word of the first compile error
func c19ErrKind(err error) string {
	s := err.Error()
	best := "Error"
	for _, w := range strings.FieldsFunc(s, func(c rune) bool { return !(c >= 'a' && c <= 'z' || c >= 'A' && c <= 'Z') }) {
		if strings.HasSuffix(w, "Error") && len(w) > 5 {
			best = w
			break
		}
	}
	return best
}

// ------------------------------------------------------------ gen

// Case lines:
//
//	P <idx> <files> <ast> <top>                          a compiling program
//	E <idx> <edit: kind callable param new note> <status> <filesB|-> <astB|->
//	T <idx> <edit ...> <status> <filesC|-> <astC|->      the round trip: edit, then its inverse
func c19Gen(tier string, r *hx.Rng) {
	c19Silence()
	defer c19Cleanup()
	w := hx.Out
	nprog := 30
	if tier == "thorough" {
		nprog = 120
	}
	skipped := 0
	for i := 0; i < nprog; {
		p := c19GenProg(r)
		fa := p.render()
		astA, err := c19Compile(fa)
		if err != nil {
			skipped++
			if skipped > 40*nprog+200 {
				fmt.Fprintf(c19Stderr, "c19 gen: too many non-compiling programs: %v\n%s\n", err, fa["main.mro"])
				break
			}
			if os.Getenv("C19_VERBOSE") != "" {
				fmt.Fprintf(c19Stderr, "c19 gen: base program does not compile: %.400v\n", err)
			}
			continue
		}
		top := p.Top.Dec
		fmt.Fprintf(w, "P %d %s %s %s\n", i, c19Enc(fa), astdump.Ast(astA).Transport(), hx.H(top))
		for _, e := range c19Edits(p) {
			c19EmitEdit(w, i, fa, e, top)
		}
		i++
	}
	fmt.Fprintf(c19Stderr, "c19 gen: %d generated programs skipped (did not compile)\n", skipped)
}

func c19EmitEdit(w interface{ Write([]byte) (int, error) }, i int, fa c19Files, e c19Edit, top string) {
	fb, status, _ := c19Apply(fa, e, top)
	dump := func(f c19Files) (string, string) {
		ast, err := c19Compile(f)
		if err != nil {
			return "nocompile", "-"
		}
		return "ok", astdump.Ast(ast).Transport()
	}
	if status != "ok" {
		fmt.Fprintf(w, "E %d %s %s - -\n", i, e, status)
		return
	}
	st, db := dump(fb)
	fmt.Fprintf(w, "E %d %s %s %s %s\n", i, e, st, c19Enc(fb), db)
	if inv, ok := e.inverse(); ok && st == "ok" && e.Note == "fresh" {
		// the top-level pipeline may itself have been renamed
		top2 := top
		if e.Kind == "rename" && e.Callable == top {
			top2 = e.New
		}
		fc, status2, _ := c19Apply(fb, inv, top2)
		if status2 != "ok" {
			fmt.Fprintf(w, "T %d %s %s - -\n", i, e, status2)
			return
		}
		st2, dc := dump(fc)
		fmt.Fprintf(w, "T %d %s %s %s %s\n", i, e, st2, c19Enc(fc), dc)
	}
}

// ------------------------------------------------------------ impl

// Observation per case: P -> "P"; E/T -> the status after redoing the edit
// from the sources, and whether the dump of the result is reproduced.
func c19Impl(args []string) {
	c19Silence()
	defer c19Cleanup()
	progs := map[string]c19Files{}
	tops := map[string]string{}
	hx.Lines(os.Stdin, func(f []string) {
		switch f[0] {
		case "P":
			progs[f[1]] = c19Dec(f[2])
			tops[f[1]] = hx.U(f[4])
			if _, err := c19Compile(progs[f[1]]); err != nil {
				fmt.Fprintln(hx.Out, "P nocompile")
			} else {
				fmt.Fprintln(hx.Out, "P ok")
			}
		case "E", "T":
			e := c19EditOf(f[2:7])
			fa, top := progs[f[1]], tops[f[1]]
			fb, status, _ := c19Apply(fa, e, top)
			if status == "ok" && f[0] == "T" {
				inv, _ := e.inverse()
				if e.Kind == "rename" && e.Callable == top {
					top = e.New
				}
				if _, err := c19Compile(fb); err != nil {
					status = "nocompile1"
				} else {
					fb, status, _ = c19Apply(fb, inv, top)
				}
			}
			if status != "ok" {
				fmt.Fprintf(hx.Out, "%s %s -\n", f[0], status)
				return
			}
			ast, err := c19Compile(fb)
			if err != nil {
				fmt.Fprintf(hx.Out, "%s nocompile -\n", f[0])
				return
			}
			same := "same"
			if astdump.Ast(ast).Transport() != f[9] {
				same = "differs"
			}
			fmt.Fprintf(hx.Out, "%s ok %s\n", f[0], same)
		default:
			fmt.Fprintln(hx.Out, "?")
		}
	})
}
