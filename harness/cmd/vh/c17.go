package main

// C17 - JSON validation and filtering agree with the type system.
//
// Types come from generated MRO declarations compiled by the real compiler
// (syntax.ParseSourceBytes); the Type objects are looked up in the Ast's
// TypeTable and dumped into the model's representation.  Values are generated
// type-directed with near-miss mutations and rendered with varied whitespace,
// key order, duplicate keys, escapes and number spellings.
//
// case lines
//   e <env> <hex mro> <typeid,typeid,...>
//   c <env> <typeid> <ty> <hex json text> <json>      validate + filter
//   a <env> <typeid1> <typeid2> <ty1> <ty2>           typeid1.IsAssignableFrom(typeid2)

import (
	"bytes"
	"encoding/json"
	"fmt"
	"io"
	"math/big"
	"os"
	"regexp"
	"sort"
	"strconv"
	"strings"

	"github.com/martian-lang/martian/martian/syntax"
	"verifharness/internal/hx"
)

func init() {
	props["c17"] = &propCmd{gen: c17Gen, impl: c17Impl, oracle: c17Oracle,
		extra: map[string]func([]string){"kernel": c17Kernel, "probe": c17Probe}}
}

// ---------------------------------------------------------------- types

type c17Ty struct {
	K    byte // 'b' builtin, 'u' user file type, 'A' array, 'M' typed map, 'S' struct
	Kind byte // builtin: s i f b p F m
	Name string
	Dim  int
	Elem *c17Ty
	Ms   []c17Member
	T    syntax.Type
}

type c17Member struct {
	Id string
	T  *c17Ty
}

var c17Kinds = map[string]byte{
	syntax.KindString: 's', syntax.KindInt: 'i', syntax.KindFloat: 'f', syntax.KindBool: 'b',
	syntax.KindPath: 'p', syntax.KindFile: 'F', syntax.KindMap: 'm',
}

func c17Dump(t syntax.Type, lookup *syntax.TypeLookup) *c17Ty {
	switch t := t.(type) {
	case *syntax.BuiltinType:
		k, ok := c17Kinds[t.Id]
		if !ok {
			panic("unknown builtin " + t.Id)
		}
		return &c17Ty{K: 'b', Kind: k, Name: t.Id, T: t}
	case *syntax.UserType:
		return &c17Ty{K: 'u', Name: t.Id, T: t}
	case *syntax.ArrayType:
		if t.Dim < 1 {
			panic("array type of dimension < 1")
		}
		return &c17Ty{K: 'A', Dim: int(t.Dim), Elem: c17Dump(t.Elem, lookup), T: t}
	case *syntax.TypedMapType:
		return &c17Ty{K: 'M', Elem: c17Dump(t.Elem, lookup), T: t}
	case *syntax.StructType:
		r := &c17Ty{K: 'S', Name: t.Id, T: t}
		for _, m := range t.Members {
			mt := lookup.Get(m.Tname)
			if mt == nil {
				panic("unknown member type " + m.Tname.String())
			}
			r.Ms = append(r.Ms, c17Member{m.Id, c17Dump(mt, lookup)})
		}
		return r
	}
	panic(fmt.Sprintf("unexpected type %T", t))
}

func hexs(s string) string { return fmt.Sprintf("%x", s) }

func (t *c17Ty) Enc() string {
	var b strings.Builder
	t.enc(&b)
	return b.String()
}

func (t *c17Ty) enc(b *strings.Builder) {
	switch t.K {
	case 'b':
		b.WriteByte('b')
		b.WriteByte(t.Kind)
	case 'u':
		fmt.Fprintf(b, "u%s;", hexs(t.Name))
	case 'A':
		fmt.Fprintf(b, "A%d:", t.Dim)
		t.Elem.enc(b)
	case 'M':
		b.WriteByte('M')
		t.Elem.enc(b)
	case 'S':
		fmt.Fprintf(b, "S%s(", hexs(t.Name))
		for _, m := range t.Ms {
			fmt.Fprintf(b, "%s:", hexs(m.Id))
			m.T.enc(b)
		}
		b.WriteByte(')')
	}
}

// Coq term of type K.JsonTypes.ty
func (t *c17Ty) Coq() string {
	switch t.K {
	case 'b':
		return "(TB " + map[byte]string{'s': "KString", 'i': "KInt", 'f': "KFloat", 'b': "KBool",
			'p': "KPath", 'F': "KFile", 'm': "KMap"}[t.Kind] + ")"
	case 'u':
		return fmt.Sprintf("(TU (unhex \"%s\"))", hexs(t.Name))
	case 'A':
		return fmt.Sprintf("(TArr %s %d)", t.Elem.Coq(), t.Dim-1)
	case 'M':
		return "(TMap " + t.Elem.Coq() + ")"
	}
	var ms []string
	for _, m := range t.Ms {
		ms = append(ms, fmt.Sprintf("(unhex \"%s\", %s)", hexs(m.Id), m.T.Coq()))
	}
	return fmt.Sprintf("(TS (unhex \"%s\") [%s])", hexs(t.Name), strings.Join(ms, "; "))
}

func c17TidStr(id syntax.TypeId) string {
	return fmt.Sprintf("%s:%d:%d", id.Tname, id.ArrayDim, id.MapDim)
}

func c17ParseTid(s string) syntax.TypeId {
	p := strings.Split(s, ":")
	a, _ := strconv.Atoi(p[1])
	m, _ := strconv.Atoi(p[2])
	return syntax.TypeId{Tname: p[0], ArrayDim: int16(a), MapDim: int16(m)}
}

// ---------------------------------------------------------------- environments

type c17Env struct {
	src    string
	ast    *syntax.Ast
	lookup *syntax.TypeLookup
	tids   []syntax.TypeId
}

func c17Compile(src string) (*c17Env, error) {
	_, _, ast, err := syntax.ParseSourceBytes([]byte(src), "c17.mro", nil, false)
	if err != nil {
		return nil, err
	}
	return &c17Env{src: src, ast: ast, lookup: &ast.TypeTable}, nil
}

func (e *c17Env) get(id syntax.TypeId) *c17Ty {
	t := e.lookup.Get(id)
	if t == nil {
		panic("type not found: " + id.String())
	}
	return c17Dump(t, e.lookup)
}

var c17Builtins = []string{"int", "float", "string", "bool", "path", "file", "map"}
var c17FieldIds = []string{"a", "b", "c", "d", "x_1", "zz", "f0"}

func c17TidSrc(id syntax.TypeId) string { return id.String() } // pointer receiver: id is addressable here

func c17RandTid(r *hx.Rng, bases []string) syntax.TypeId {
	id := syntax.TypeId{Tname: hx.Pick(r, bases)}
	switch r.Intn(10) {
	case 0, 1:
		id.ArrayDim = int16(1 + r.Intn(2))
	case 2:
		id.MapDim = 1
	case 3:
		id.MapDim = int16(2 + r.Intn(2))
	case 4:
		id.MapDim = int16(1 + r.Intn(2))
		id.ArrayDim = int16(1 + r.Intn(2))
	case 5:
		id.ArrayDim = 3
	}
	if id.Tname == "map" && id.MapDim > 0 && r.Bool() {
		// map<map> is legal MRO (a typed map of untyped maps)
	}
	return id
}

// A related type: what a pipeline author might plausibly bind to a parameter
// of type id (so that assignable pairs are frequent).
func c17Related(r *hx.Rng, id syntax.TypeId, fts []string, structs []string) syntax.TypeId {
	o := id
	switch id.Tname {
	case "int":
		o.Tname = "float"
	case "string":
		o.Tname = hx.Pick(r, []string{"file", "path", "string"})
	case "file", "path":
		o.Tname = "string"
	case "map":
		if len(structs) > 0 && r.Bool() {
			o.Tname = hx.Pick(r, structs)
		}
	default:
		isFt := false
		for _, f := range fts {
			if f == id.Tname {
				isFt = true
			}
		}
		if isFt {
			o.Tname = hx.Pick(r, []string{"file", "string"})
		} else if r.Intn(3) == 0 {
			o.Tname = "map"
		}
	}
	return o
}

func c17GenEnv(r *hx.Rng) *c17Env {
	for attempt := 0; ; attempt++ {
		var sb strings.Builder
		var fts, structs []string
		bases := append([]string(nil), c17Builtins...)
		nft := r.Intn(3)
		for i := 0; i < nft; i++ {
			n := fmt.Sprintf("ft%d", i)
			fts = append(fts, n)
			bases = append(bases, n)
			fmt.Fprintf(&sb, "filetype %s;\n", n)
		}
		sb.WriteString("\n")
		ns := 1 + r.Intn(5)
		type decl struct {
			ids  []string
			tids []syntax.TypeId
		}
		var decls []decl
		var tids []syntax.TypeId
		for i := 0; i < ns; i++ {
			name := fmt.Sprintf("S%d", i)
			var d decl
			if len(decls) > 0 && r.Intn(3) == 0 {
				// a variant of an earlier struct: superset / subset / related member types
				p := decls[r.Intn(len(decls))]
				for j, id := range p.ids {
					if len(p.ids) > 1 && r.Intn(5) == 0 {
						continue
					}
					t := p.tids[j]
					if r.Intn(3) == 0 {
						t = c17Related(r, t, fts, structs)
					}
					d.ids = append(d.ids, id)
					d.tids = append(d.tids, t)
				}
				if len(d.ids) == 0 {
					d.ids, d.tids = []string{p.ids[0]}, []syntax.TypeId{p.tids[0]}
				}
				if r.Intn(3) == 0 {
					for _, id := range c17FieldIds {
						used := false
						for _, u := range d.ids {
							used = used || u == id
						}
						if !used {
							d.ids = append(d.ids, id)
							d.tids = append(d.tids, c17RandTid(r, bases))
							break
						}
					}
				}
			} else {
				nm := 1 + r.Intn(4)
				perm := append([]string(nil), c17FieldIds...)
				for j := 0; j < nm; j++ {
					k := r.Intn(len(perm))
					d.ids = append(d.ids, perm[k])
					perm = append(perm[:k], perm[k+1:]...)
					d.tids = append(d.tids, c17RandTid(r, bases))
				}
			}
			fmt.Fprintf(&sb, "struct %s(\n", name)
			for j, id := range d.ids {
				fmt.Fprintf(&sb, "    %s %s,\n", c17TidSrc(d.tids[j]), id)
				tids = append(tids, d.tids[j])
			}
			sb.WriteString(")\n\n")
			decls = append(decls, d)
			structs = append(structs, name)
			bases = append(bases, name)
			tids = append(tids, syntax.TypeId{Tname: name})
		}
		env, err := c17Compile(sb.String())
		if err != nil {
			if attempt > 50 {
				panic("cannot generate a compiling environment: " + err.Error() + "\n" + sb.String())
			}
			continue
		}
		// targets: struct types, member types, collections over random bases
		for i := 0; i < 4; i++ {
			tids = append(tids, c17RandTid(r, bases))
		}
		for _, s := range structs {
			tids = append(tids, syntax.TypeId{Tname: s, ArrayDim: 1}, syntax.TypeId{Tname: s, MapDim: 1})
		}
		if r.Intn(2) == 0 {
			tids = append(tids, syntax.TypeId{Tname: hx.Pick(r, c17Builtins)})
		}
		seen := map[syntax.TypeId]bool{}
		for _, id := range tids {
			if !seen[id] && env.lookup.Get(id) != nil {
				seen[id] = true
				env.tids = append(env.tids, id)
			}
		}
		return env
	}
}

// ---------------------------------------------------------------- JSON values (literal-preserving)

type jval struct {
	K   byte // n t f # s [ {
	Num string
	S   string
	A   []jval
	O   []jkv
}
type jkv struct {
	Key string
	Val jval
}

func c17Parse(b []byte) (jval, error) {
	dec := json.NewDecoder(bytes.NewReader(b))
	dec.UseNumber()
	v, err := c17ParseV(dec)
	if err != nil {
		return jval{}, err
	}
	if _, err := dec.Token(); err != io.EOF {
		return jval{}, fmt.Errorf("trailing data")
	}
	return v, nil
}

func c17ParseV(dec *json.Decoder) (jval, error) {
	tok, err := dec.Token()
	if err != nil {
		return jval{}, err
	}
	switch t := tok.(type) {
	case nil:
		return jval{K: 'n'}, nil
	case bool:
		if t {
			return jval{K: 't'}, nil
		}
		return jval{K: 'f'}, nil
	case json.Number:
		return jval{K: '#', Num: string(t)}, nil
	case string:
		return jval{K: 's', S: t}, nil
	case json.Delim:
		switch t {
		case '[':
			v := jval{K: '[', A: []jval{}}
			for dec.More() {
				x, err := c17ParseV(dec)
				if err != nil {
					return jval{}, err
				}
				v.A = append(v.A, x)
			}
			_, err := dec.Token()
			return v, err
		case '{':
			v := jval{K: '{', O: []jkv{}}
			for dec.More() {
				kt, err := dec.Token()
				if err != nil {
					return jval{}, err
				}
				x, err := c17ParseV(dec)
				if err != nil {
					return jval{}, err
				}
				v.O = append(v.O, jkv{kt.(string), x})
			}
			_, err := dec.Token()
			return v, err
		}
	}
	return jval{}, fmt.Errorf("unexpected token %v", tok)
}

var c17IntLit = regexp.MustCompile(`^-?[0-9]+$`)

// c17Num is the model's reading of a number literal: integer syntax -> (m, 0);
// anything else -> value m*10^e with e < 0 (see coq/K/JsonTypes.v).
func c17Num(lit string) hx.JV {
	if c17IntLit.MatchString(lit) {
		m, _ := new(big.Int).SetString(lit, 10)
		return hx.JV{K: '#', M: m, E: 0}
	}
	n, err := hx.ParseNumber(lit)
	if err != nil {
		panic("bad number literal " + lit)
	}
	if n.M.Sign() == 0 {
		return hx.JV{K: '#', M: big.NewInt(0), E: -1}
	}
	if n.E >= 0 {
		m := new(big.Int).Mul(n.M, new(big.Int).Exp(big.NewInt(10), big.NewInt(n.E+1), nil))
		return hx.JV{K: '#', M: m, E: -1}
	}
	return n
}

func (v jval) JV() hx.JV {
	switch v.K {
	case 'n':
		return hx.JNull()
	case 't':
		return hx.JBool(true)
	case 'f':
		return hx.JBool(false)
	case '#':
		return c17Num(v.Num)
	case 's':
		return hx.JStr(v.S)
	case '[':
		a := make([]hx.JV, len(v.A))
		for i, x := range v.A {
			a[i] = x.JV()
		}
		return hx.JArr(a)
	}
	o := make([]hx.JKV, len(v.O))
	for i, kv := range v.O {
		o[i] = hx.JKV{Key: kv.Key, Val: kv.Val.JV()}
	}
	return hx.JObj(o)
}

// last value of each key, in the order of the last occurrences
func (v jval) dedup() []jkv {
	var r []jkv
	for i, kv := range v.O {
		later := false
		for _, kv2 := range v.O[i+1:] {
			later = later || kv2.Key == kv.Key
		}
		if !later {
			r = append(r, kv)
		}
	}
	return r
}

func (v jval) get(key string) (jval, bool) {
	for i := len(v.O) - 1; i >= 0; i-- {
		if v.O[i].Key == key {
			return v.O[i].Val, true
		}
	}
	return jval{}, false
}

// ---------------------------------------------------------------- rendering

type c17Style struct {
	r     *hx.Rng
	plain bool
}

func (s *c17Style) ws(b *strings.Builder) {
	if s.plain {
		return
	}
	switch s.r.Intn(12) {
	case 0:
		b.WriteByte(' ')
	case 1:
		b.WriteString("\n  ")
	case 2:
		b.WriteString("\t")
	case 3:
		b.WriteString(" \r\n ")
	}
}

func (s *c17Style) str(b *strings.Builder, x string) {
	if !s.plain && s.r.Intn(8) == 0 {
		// spelled with escapes
		b.WriteByte('"')
		for _, c := range x {
			switch {
			case c == '/' && s.r.Bool():
				b.WriteString(`\/`)
			case c < 0x80 && (c < 0x20 || c == '"' || c == '\\' || s.r.Intn(3) == 0):
				fmt.Fprintf(b, `\u%04x`, c)
			case c > 0xFFFF:
				c -= 0x10000
				fmt.Fprintf(b, `\u%04x\u%04x`, 0xD800+(c>>10), 0xDC00+(c&0x3FF))
			default:
				b.WriteRune(c)
			}
		}
		b.WriteByte('"')
		return
	}
	e, _ := json.Marshal(x)
	b.Write(e)
}

func (s *c17Style) render(b *strings.Builder, v jval) {
	switch v.K {
	case 'n':
		b.WriteString("null")
	case 't':
		b.WriteString("true")
	case 'f':
		b.WriteString("false")
	case '#':
		b.WriteString(v.Num)
	case 's':
		s.str(b, v.S)
	case '[':
		b.WriteByte('[')
		s.ws(b)
		for i, x := range v.A {
			if i > 0 {
				b.WriteByte(',')
				s.ws(b)
			}
			s.render(b, x)
			s.ws(b)
		}
		b.WriteByte(']')
	case '{':
		b.WriteByte('{')
		s.ws(b)
		for i, kv := range v.O {
			if i > 0 {
				b.WriteByte(',')
				s.ws(b)
			}
			s.str(b, kv.Key)
			s.ws(b)
			b.WriteByte(':')
			s.ws(b)
			s.render(b, kv.Val)
			s.ws(b)
		}
		b.WriteByte('}')
	}
}

func c17Render(r *hx.Rng, v jval) string {
	s := &c17Style{r: r, plain: r.Intn(3) == 0}
	var b strings.Builder
	if !s.plain && r.Intn(4) == 0 {
		b.WriteString(hx.Pick(r, []string{" ", "\n", "\t ", "  "}))
	}
	s.render(&b, v)
	if !s.plain && r.Intn(4) == 0 {
		b.WriteString(hx.Pick(r, []string{" ", "\n", " \n"}))
	}
	return b.String()
}

// ---------------------------------------------------------------- value generation

var c17IntLits = []string{"0", "-0", "7", "-12", "1000", "9223372036854775807", "-9223372036854775808"}
var c17NearInts = []string{
	"3.0", "-4.0", "2.5", "1e2", "1E2", "1e+2", "12e-1", "120e-1", "1e0", "0.0", "-0.0", "0e0", "0.1",
	"9223372036854775808", "-9223372036854775809", "123456789012345678901234567890",
	"1.0000000000000000001", "4503599627370496.5", "4503599627370495.5", "9007199254740993.0",
	"9223372036854775807.0", "-9223372036854775808.0", "9223372036854774784.0", "1e19", "-1e19", "1e18",
	"1e-400", "-1e-400", "5e-324", "2.4703282292062327e-324", "2.4703282292062328e-324",
	"1e400", "-1e400", "1.7976931348623157e308", "1.7976931348623159e308",
	"179769313486231580793728971405303415079934132710037826936173778980444968292764750946649017977587207096330286416692887910946555547851940402630657488671505820681908902000708383676273854845817711531764475730270069855571366959622842914819860834936475292719074168444365510704342711559699508093042880177904174497791",
	"179769313486231570814527423731704356798070567525844996598917476803157260780028538760589558632766878171540458953514382464234321326889464182768467546703537516986049910576551282076245490090389328944075868508455133942304583236903222948165808559332123348274797826204144723168738177180919299881250404026184124858368",
	"0.30000000000000004", "1.5e300", "-2.5E-3", "100e-2",
}
var c17Floats = []string{"1.5", "-2e10", "0.25", "3", "-7", "6.02e23", "1e-7", "0.0", "12.0"}
var c17Strs = []string{"", "x", "hello world", "a/b.txt", "/abs/path", "12", "true", "null", "tab\there", "q\"uote\\", "é☃", "\U0001F600", "<&>"}
var c17Keys = []string{"k", "k2", "a", "b", "zz", "file.txt", "0", "K", "é"}
var c17BadKeys = []string{"", ".", "..", "a/b", "/", "nul\x00l", strings.Repeat("k", 255), strings.Repeat("k", 256)}

// an integer of random magnitude with a small fractional part (or .0)
func c17NearInt(r *hx.Rng) string {
	m := strconv.FormatUint((r.Next()>>1)>>uint(r.Intn(62)), 10)
	if r.Bool() {
		m = "-" + m
	}
	return m + hx.Pick(r, []string{".0", ".5", ".25", ".75", ".000001", ".00", "e0", ".5e0"})
}

func c17NumLit(r *hx.Rng) string {
	switch r.Intn(7) {
	case 6:
		return c17NearInt(r)
	case 0:
		return hx.Pick(r, c17NearInts)
	case 1:
		return hx.Pick(r, c17Floats)
	case 2:
		// random decimal with exponent
		m := strconv.FormatUint((r.Next()>>1)>>uint(r.Intn(60)), 10)
		if r.Bool() {
			m = "-" + m
		}
		if r.Bool() && len(m) > 2 {
			k := 1 + r.Intn(len(m)-2)
			if m[k-1] != '-' {
				m = m[:k] + "." + m[k:]
			}
		}
		if r.Intn(3) == 0 {
			m += hx.Pick(r, []string{"e", "E", "e+", "e-"}) + strconv.Itoa(r.Intn(30))
		}
		return m
	default:
		if r.Intn(4) == 0 {
			return strconv.FormatInt(int64(r.Next()), 10)
		}
		return hx.Pick(r, c17IntLits)
	}
}

func c17Junk(r *hx.Rng, depth int) jval {
	switch r.Intn(8) {
	case 0:
		return jval{K: 'n'}
	case 1:
		return jval{K: hx.Pick(r, []byte{'t', 'f'})}
	case 2:
		return jval{K: '#', Num: c17NumLit(r)}
	case 3:
		return jval{K: 's', S: hx.Pick(r, c17Strs)}
	case 4, 5:
		v := jval{K: '[', A: []jval{}}
		if depth > 0 {
			for i := r.Intn(3); i > 0; i-- {
				v.A = append(v.A, c17Junk(r, depth-1))
			}
		}
		return v
	default:
		v := jval{K: '{', O: []jkv{}}
		if depth > 0 {
			for i := r.Intn(3); i > 0; i-- {
				v.O = append(v.O, jkv{hx.Pick(r, c17Keys), c17Junk(r, depth-1)})
			}
		}
		return v
	}
}

type c17Gener struct {
	r    *hx.Rng
	miss int // per-mille probability of a near-miss at each node
}

func (g *c17Gener) hit(permille int) bool { return g.r.Intn(1000) < permille*g.miss/100 }

// gen produces a value for type t; with g.miss == 0 it is always of the
// declared shape.
func (g *c17Gener) gen(t *c17Ty, depth int) jval {
	r := g.r
	if r.Intn(100) < 6 {
		return jval{K: 'n'}
	}
	if g.hit(40) {
		return c17Junk(r, 2)
	}
	if g.hit(15) {
		return jval{K: '[', A: []jval{g.gen(t, depth+1)}} // one level too deep
	}
	switch t.K {
	case 'b':
		switch t.Kind {
		case 's', 'p', 'F':
			if g.hit(30) {
				return jval{K: '#', Num: c17NumLit(r)}
			}
			return jval{K: 's', S: hx.Pick(r, c17Strs)}
		case 'i':
			if g.hit(150) {
				if r.Bool() {
					return jval{K: '#', Num: c17NearInt(r)}
				}
				return jval{K: '#', Num: hx.Pick(r, c17NearInts)}
			}
			if g.hit(30) {
				return jval{K: 's', S: hx.Pick(r, []string{"12", "0", "1.0", "-3"})}
			}
			if r.Intn(3) == 0 {
				return jval{K: '#', Num: strconv.FormatInt(int64(r.Next())>>uint(r.Intn(64)), 10)}
			}
			return jval{K: '#', Num: hx.Pick(r, c17IntLits)}
		case 'f':
			if g.hit(30) {
				return jval{K: 's', S: "1.5"}
			}
			return jval{K: '#', Num: c17NumLit(r)}
		case 'b':
			if g.hit(40) {
				return hx.Pick(r, []jval{{K: '#', Num: "1"}, {K: 's', S: "true"}, {K: '#', Num: "0"}})
			}
			return jval{K: hx.Pick(r, []byte{'t', 'f'})}
		default:
			return c17Junk(r, 2).asObj(r)
		}
	case 'u':
		if g.hit(60) {
			return c17Junk(r, 1)
		}
		return jval{K: 's', S: hx.Pick(r, c17Strs)}
	case 'A':
		if g.hit(20) {
			// one level too shallow
			if t.Dim == 1 {
				return g.gen(t.Elem, depth+1)
			}
			return g.gen(&c17Ty{K: 'A', Dim: t.Dim - 1, Elem: t.Elem}, depth+1)
		}
		sub := t.Elem
		if t.Dim > 1 {
			sub = &c17Ty{K: 'A', Dim: t.Dim - 1, Elem: t.Elem}
		}
		v := jval{K: '[', A: []jval{}}
		n := r.Intn(4)
		if depth > 3 {
			n = r.Intn(2)
		}
		for i := 0; i < n; i++ {
			v.A = append(v.A, g.gen(sub, depth+1))
		}
		return v
	case 'M':
		v := jval{K: '{', O: []jkv{}}
		n := r.Intn(4)
		if depth > 3 {
			n = r.Intn(2)
		}
		for i := 0; i < n; i++ {
			k := hx.Pick(r, c17Keys)
			if g.hit(60) {
				k = hx.Pick(r, c17BadKeys)
			}
			v.O = append(v.O, jkv{k, g.gen(t.Elem, depth+1)})
		}
		return v
	case 'S':
		v := jval{K: '{', O: []jkv{}}
		for _, m := range t.Ms {
			if g.hit(40) {
				continue // missing field
			}
			v.O = append(v.O, jkv{m.Id, g.gen(m.T, depth+1)})
			if g.hit(30) {
				// duplicate key (the last one wins)
				v.O = append(v.O, jkv{m.Id, g.gen(m.T, depth+1)})
			}
		}
		if r.Intn(100) < 25 {
			// undeclared field
			v.O = append(v.O, jkv{hx.Pick(r, []string{"zz", "extra", "a", "b", "_x"}), c17Junk(r, 1)})
		}
		if r.Intn(3) == 0 {
			// another key order
			for i := len(v.O) - 1; i > 0; i-- {
				j := r.Intn(i + 1)
				v.O[i], v.O[j] = v.O[j], v.O[i]
			}
		}
		return v
	}
	panic("unreachable")
}

func (v jval) asObj(r *hx.Rng) jval {
	if v.K == '{' {
		return v
	}
	return jval{K: '{', O: []jkv{{hx.Pick(r, c17Keys), v}}}
}

// ---------------------------------------------------------------- gen

// Fixed environments: the families a random environment reaches only rarely
// (struct assigned to a typed map, directory-like maps, struct members that
// differ in dimensions but are assignable member-wise, deep nesting).
type c17Fixed struct {
	src   string
	tids  []string // MRO type spellings
	texts []string // values tried against every type of the environment
}

var c17FixedEnvs = []c17Fixed{
	{"struct S(\n    int a,\n)\n",
		[]string{"S", "map<int>", "map", "S[]", "map<int>[]", "int"},
		[]string{`{"a":1,"zz":"str"}`, `{"a":1}`, `{"a":1.0,"zz":2.0}`, `{"zz":1}`, `[{"a":1,"zz":"str"}]`, ` null `, `{"a":1,"a":"x"}`, `{"a":"x","a":1}`}},
	{"filetype txt;\n\nstruct F(\n    txt f,\n)\n\nstruct G(\n    string f,\n)\n",
		[]string{"map<file>", "map<string>", "map<txt>", "map<path>", "map<F>", "map<G>", "map<string[]>", "map<file[]>", "F", "G", "txt", "file", "string", "path"},
		[]string{`{"a/b":"x"}`, `{"":"x"}`, `{".":"x","..":"y"}`, `{"ok":"x"}`, `{"a/b":{"f":"x"}}`, `{"k":["x"]}`, `{"a\u002fb":["x"]}`, `{"f":"x"}`, `{"f":12}`, `"x"`, `12`}},
	{"struct A(\n    map m,\n)\n\nstruct B(\n    map<int> m,\n)\n\nstruct C(\n    int m,\n)\n\nstruct D(\n    map<int> m,\n    int n,\n)\n\nstruct E(\n    map<C> m,\n)\n\nstruct H(\n    C m,\n)\n\nstruct I(\n    float m,\n)\n",
		[]string{"A", "B", "C", "D", "E", "H", "I", "map", "map<int>", "map<C>", "A[]", "B[]", "map<A>", "map<B>"},
		[]string{`{"m":{"k":1}}`, `{"m":{"k":1.0},"n":2}`, `{"m":{"m":1}}`, `{"m":{"k":{"m":1,"x":2}}}`, `{"m":3}`, `{"m":3.0}`, `[{"m":null}]`}},
	{"struct P(\n    int[][] g,\n    map<float[]> h,\n)\n\nstruct Q(\n    P p,\n    P[] ps,\n    map<P> mp,\n)\n\nstruct R(\n    Q q,\n    map<Q[]> mq,\n)\n",
		[]string{"P", "Q", "R", "R[][]", "map<R>", "int[][][]", "map<int[][]>", "map<int[][]>[]"},
		[]string{`{"g":[[1,2.0],[3]],"h":{"k":[1.5]}}`, `{"g":[[1,2.5]],"h":{}}`, `{"g":[1],"h":{"k":[1]}}`, `{"g":[[[1]]],"h":{"k":1}}`,
			`[[[1.0,2],[]],[[3e0]]]`, `{"k":[[1,2.0]],"k":[[4.0]]}`, `[{"k":[[7.0]]},{}]`, `[[1,2],[3.0]]`,
			`{"q":{"p":{"g":[[1.0]],"h":null,"x":1},"ps":[],"mp":{}},"mq":{"k":[]}}`}},
}

func c17SpellTid(s string) syntax.TypeId {
	var id syntax.TypeId
	if err := id.UnmarshalText([]byte(s)); err != nil {
		panic(err)
	}
	return id
}

func c17Emit(r *hx.Rng, e int, env *c17Env, perType int, texts []string) {
	w := hx.Out
	var tl []string
	for _, id := range env.tids {
		tl = append(tl, c17TidStr(id))
	}
	fmt.Fprintf(w, "e %d %s %s\n", e, hx.H(env.src), strings.Join(tl, ","))
	dumps := make([]*c17Ty, len(env.tids))
	for i, id := range env.tids {
		dumps[i] = env.get(id)
	}
	for i, id := range env.tids {
		t := dumps[i]
		enc := t.Enc()
		emit := func(text string) {
			pv, err := c17Parse([]byte(text))
			if err != nil {
				panic("generated text does not parse: " + text)
			}
			fmt.Fprintf(w, "c %d %s %s %s %s\n", e, c17TidStr(id), enc, hx.H(text), pv.JV().Enc())
		}
		for _, text := range texts {
			emit(text)
		}
		for k := 0; k < perType; k++ {
			g := &c17Gener{r: r, miss: []int{0, 0, 100, 100, 250}[r.Intn(5)]}
			src := t
			if k%4 == 3 {
				// a value made for another type of the environment
				// (often one assignable to this one)
				src = dumps[r.Intn(len(dumps))]
			}
			emit(c17Render(r, g.gen(src, 0)))
		}
	}
	// assignability: all ordered pairs
	for i, a := range env.tids {
		for j, b := range env.tids {
			fmt.Fprintf(w, "a %d %s %s %s %s\n", e, c17TidStr(a), c17TidStr(b), dumps[i].Enc(), dumps[j].Enc())
		}
	}
}

func c17Gen(tier string, r *hx.Rng) {
	nenv, perType := 120, 10
	if tier == "thorough" {
		nenv, perType = 1200, 16
	}
	e := 0
	for _, fx := range c17FixedEnvs {
		env, err := c17Compile(fx.src)
		if err != nil {
			panic("fixed environment does not compile: " + err.Error())
		}
		for _, s := range fx.tids {
			env.tids = append(env.tids, c17SpellTid(s))
		}
		c17Emit(r, e, env, perType, fx.texts)
		e++
	}
	for i := 0; i < nenv; i++ {
		c17Emit(r, e, c17GenEnv(r), perType, nil)
		e++
	}
}

// ---------------------------------------------------------------- impl

type c17Envs struct{ m map[string]*c17Env }

func (es *c17Envs) add(id, hexsrc string) {
	env, err := c17Compile(hx.U(hexsrc))
	if err != nil {
		panic("environment does not compile: " + err.Error())
	}
	es.m[id] = env
}

func (es *c17Envs) typ(env, tid string) (syntax.Type, *syntax.TypeLookup) {
	e := es.m[env]
	t := e.lookup.Get(c17ParseTid(tid))
	if t == nil {
		panic("unknown type " + tid)
	}
	return t, e.lookup
}

func c17B(b bool) byte {
	if b {
		return '1'
	}
	return '0'
}

func c17Valid(t syntax.Type, lookup *syntax.TypeLookup, data []byte) (bool, bool) {
	var alarms strings.Builder
	err := t.IsValidJson(append([]byte(nil), data...), &alarms, lookup)
	return err != nil, alarms.Len() > 0
}

func c17Canon(b []byte) (hx.JV, error) {
	v, err := c17Parse(b)
	if err != nil {
		return hx.JV{}, err
	}
	return v.JV().Canon(), nil
}

// c17Observe returns "<7 flags> <canonical filtered value>"; see observe in
// coq/K/JsonTypes.v.
func c17Observe(t syntax.Type, lookup *syntax.TypeLookup, data []byte) (res string) {
	defer func() {
		if x := recover(); x != nil {
			res = fmt.Sprintf("PANIC %v", x)
		}
	}()
	ve, va := c17Valid(t, lookup, data)
	in := append([]byte(nil), data...)
	out, fatal, err := t.FilterJson(in, lookup)
	out = append([]byte(nil), out...)
	if !bytes.Equal(in, data) {
		return "INPUT-MODIFIED"
	}
	co, perr := c17Canon(out)
	if perr != nil {
		return "BADJSON " + hx.H(string(out))
	}
	ve2, va2 := c17Valid(t, lookup, out)
	out2, _, _ := t.FilterJson(append([]byte(nil), out...), lookup)
	co2, perr2 := c17Canon(out2)
	idem := perr2 == nil && co2.Enc() == co.Enc()
	return string([]byte{c17B(ve), c17B(va), c17B(fatal), c17B(err != nil), c17B(ve2), c17B(va2), c17B(idem)}) +
		" " + co.Enc()
}

func c17Assignable(a, b syntax.Type, lookup *syntax.TypeLookup) (res string) {
	defer func() {
		if x := recover(); x != nil {
			res = fmt.Sprintf("PANIC %v", x)
		}
	}()
	if a.IsAssignableFrom(b, lookup) == nil {
		return "1"
	}
	return "0"
}

func c17Impl(args []string) {
	es := &c17Envs{m: map[string]*c17Env{}}
	hx.Lines(os.Stdin, func(f []string) {
		switch f[0] {
		case "e":
			es.add(f[1], f[2])
			fmt.Fprintln(hx.Out, "e")
		case "c":
			t, lookup := es.typ(f[1], f[2])
			if enc := c17Dump(t, lookup).Enc(); enc != f[3] {
				fmt.Fprintln(hx.Out, "TYPE-DUMP-DIFFERS "+enc)
				return
			}
			fmt.Fprintln(hx.Out, c17Observe(t, lookup, []byte(hx.U(f[4]))))
		case "a":
			a, lookup := es.typ(f[1], f[2])
			b, _ := es.typ(f[1], f[3])
			if c17Dump(a, lookup).Enc() != f[4] || c17Dump(b, lookup).Enc() != f[5] {
				fmt.Fprintln(hx.Out, "TYPE-DUMP-DIFFERS")
				return
			}
			fmt.Fprintln(hx.Out, c17Assignable(a, b, lookup))
		default:
			fmt.Fprintln(hx.Out, "?")
		}
	})
}

// ---------------------------------------------------------------- kernel sample

// c17Kernel: reads cases, emits a .v file whose evaluation by vm_compute
// compares K.JsonTypes.observe / assignable with the implementation on every
// step-th case (at most max of each kind).
func c17Kernel(args []string) {
	max, _ := strconv.Atoi(args[0])
	step, _ := strconv.Atoi(args[1])
	if step < 1 {
		step = 1
	}
	es := &c17Envs{m: map[string]*c17Env{}}
	var cs, as []string
	n := 0
	hx.Lines(os.Stdin, func(f []string) {
		switch f[0] {
		case "e":
			es.add(f[1], f[2])
		case "c":
			n++
			if n%step != 0 || len(cs) >= max {
				return
			}
			t, lookup := es.typ(f[1], f[2])
			data := []byte(hx.U(f[4]))
			obs := c17Observe(t, lookup, data)
			sp := strings.IndexByte(obs, ' ')
			if sp != 7 {
				return
			}
			pv, _ := c17Parse(data)
			var flags []string
			for _, c := range obs[:7] {
				flags = append(flags, string(c)+"%Z")
			}
			// the implementation's canonical output, re-parsed from its transport form
			out, _, _ := t.FilterJson(append([]byte(nil), data...), lookup)
			co, _ := c17Canon(out)
			cs = append(cs, fmt.Sprintf("(%d%%N, %s, %s, [%s], %s)", n, c17Dump(t, lookup).Coq(), pv.JV().Coq(),
				strings.Join(flags, "; "), co.Coq()))
		case "a":
			n++
			if n%step != 0 || len(as) >= max {
				return
			}
			a, lookup := es.typ(f[1], f[2])
			b, _ := es.typ(f[1], f[3])
			as = append(as, fmt.Sprintf("(%d%%N, %s, %s, %s)", n, c17Dump(a, lookup).Coq(), c17Dump(b, lookup).Coq(),
				map[string]string{"1": "true", "0": "false"}[c17Assignable(a, b, lookup)]))
		}
	})
	w := hx.Out
	fmt.Fprintln(w, "From Coq Require Import String.")
	fmt.Fprintln(w, "From Martian Require Import Lib.Bytes Json.Json K.JsonTypes.")
	fmt.Fprintln(w, "Open Scope string_scope.")
	fmt.Fprintf(w, "Definition ccases : list (N * ty * json * list Z * json) := [\n%s].\n", strings.Join(cs, ";\n"))
	fmt.Fprintf(w, "Definition acases : list (N * ty * ty * bool) := [\n%s].\n", strings.Join(as, ";\n"))
	fmt.Fprintln(w, `Definition zs_eqb (a b : list Z) : bool := (length a =? length b)%nat && forallb (fun p => (fst p =? snd p)%Z) (combine a b).
Definition cbad := List.filter (fun c => match c with (_, t, v, fl, o) =>
  if (nth 2 fl 0 =? 1)%Z && (nth 2 (fst (observe t v)) 0 =? 1)%Z
  then negb (zs_eqb (firstn 4 (fst (observe t v))) (firstn 4 fl))
  else negb (zs_eqb (fst (observe t v)) fl && json_eqb (snd (observe t v)) o) end) ccases.
Definition abad := List.filter (fun c => match c with (_, t, o, r) => negb (Bool.eqb (assignable t o) r) end) acases.
Definition M := Eval vm_compute in (List.app (map (fun c => fst (fst (fst (fst c)))) cbad) (map (fun c => fst (fst (fst c))) abad)).
Print M.`)
	fmt.Fprintf(w, "(* ccases %d acases %d *)\n", len(cs), len(as))
}

// ---------------------------------------------------------------- probe

// c17Probe: vh c17 probe <mro file> <type> <json text>  (manual replay)
func c17Probe(args []string) {
	src, err := os.ReadFile(args[0])
	if err != nil {
		panic(err)
	}
	env, err := c17Compile(string(src))
	if err != nil {
		fmt.Fprintln(hx.Out, "compile error:", err)
		return
	}
	var id syntax.TypeId
	if err := id.UnmarshalText([]byte(args[1])); err != nil {
		panic(err)
	}
	t := env.lookup.Get(id)
	if t == nil {
		fmt.Fprintln(hx.Out, "unknown type")
		return
	}
	data := []byte(args[2])
	var alarms strings.Builder
	verr := t.IsValidJson(data, &alarms, env.lookup)
	out, fatal, ferr := t.FilterJson(data, env.lookup)
	fmt.Fprintf(hx.Out, "type %s\nIsValidJson: err=%v alarms=%q\nFilterJson: out=%s fatal=%v err=%v\nobserve: %s\n",
		c17Dump(t, env.lookup).Enc(), verr, alarms.String(), out, fatal, ferr, c17Observe(t, env.lookup, data))
	if len(args) > 3 {
		var id2 syntax.TypeId
		if err := id2.UnmarshalText([]byte(args[3])); err != nil {
			panic(err)
		}
		t2 := env.lookup.Get(id2)
		fmt.Fprintf(hx.Out, "%s.IsAssignableFrom(%s): %v\n", args[1], args[3], t.IsAssignableFrom(t2, env.lookup))
		var al2 strings.Builder
		fmt.Fprintf(hx.Out, "%s.IsValidJson(value): %v\n", args[3], t2.IsValidJson(data, &al2, env.lookup))
		fmt.Fprintf(hx.Out, "%s.IsValidJson(filtered): %v\n", args[1], t.IsValidJson(out, &al2, env.lookup))
	}
}

var _ = sort.Strings
