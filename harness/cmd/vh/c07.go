package main

// C07 - accepted programs are type-safe; ill-typed bindings are rejected.
//
//	vh c07 gen <tier> <seed>    cases: p <kind> <class> <must> <pid> <call> <bind> <src> <ast>
//	vh c07 impl                 per case: accept [graph=ok|err|panic] | reject <locs> | crash
//	vh c07 oracle               per case: ok | skip | FAIL <class> <detail>
//	vh c07 coq <cases> <impl> <n>   a cases.v evaluating the model in the kernel
//
// <ast> is the transport form of the Ast as the PARSER built it
// (Parser.UncheckedParse); the implementation side compiles <src> with
// syntax.ParseSourceBytes.  A location is pipeline/call/binding (hex fields),
// obtained from the error's source line through the parsed Ast's node lines.

import (
	"bufio"
	"fmt"
	"os"
	"sort"
	"strings"

	"github.com/martian-lang/martian/martian/syntax"

	"verifharness/internal/astdump"
	"verifharness/internal/hx"
)

func init() {
	props["c07"] = &propCmd{
		gen:    c07Gen,
		impl:   c07Impl,
		oracle: c07Oracle,
		extra: map[string]func([]string){
			"coq":      c07Coq,
			"coqterm":  c07CoqTerm,
			"genprogs": c07GenProgs,
			"run":      c07Run,
		},
	}
}

const c07StageCmd = "vh __stage"

func c07Parse(src string) (*syntax.Ast, error) {
	var parser syntax.Parser
	return parser.UncheckedParse([]byte(src), "pipeline.mro")
}

func c07Emit(kind, class string, must bool, pid, call, bind, src string) bool {
	ast, err := c07Parse(src)
	if err != nil || ast == nil {
		fmt.Fprintf(os.Stderr, "c07 gen: does not parse (%s %s): %v\n", kind, class, err)
		if d := os.Getenv("VH_C07_DUMP_BAD"); d != "" {
			os.WriteFile(d, []byte(src), 0o644)
		}
		return false
	}
	m := "0"
	if must {
		m = "1"
	}
	fmt.Fprintf(hx.Out, "p %s %s %s %s %s %s %s %s\n", kind, class, m, hx.H(pid), hx.H(call), hx.H(bind),
		hx.H(src), astdump.Ast(ast).Transport())
	return true
}

func c07Gen(tier string, rng *hx.Rng) {
	nprog, maxMut := 110, 26
	if tier == "thorough" {
		nprog, maxMut = 700, 40
	}
	stats := map[string]int{}
	for _, src := range c07Corpus {
		c07Emit("corpus", "corpus", false, "", "", "", src)
	}
	nchain := 40
	if tier == "thorough" {
		nchain = 300
	}
	for _, src := range c07ChainPrograms(rng, nchain, c07StageCmd) {
		if c07Emit("corpus", "chain", false, "", "", "", src) {
			stats["chain_out_of_order"]++
		}
	}
	for i := 0; i < nprog; i++ {
		g := &c7gen{r: rng, stats: stats}
		p := g.gen()
		c07Emit("base", "base", false, "", "", "", p.render(c07StageCmd))
		muts := g.mutations(p)
		// a seeded sample that covers the classes evenly
		byClass := map[string][]c7mut{}
		var classes []string
		for _, m := range muts {
			if _, ok := byClass[m.class]; !ok {
				classes = append(classes, m.class)
			}
			byClass[m.class] = append(byClass[m.class], m)
		}
		sort.Strings(classes)
		n := 0
		for round := 0; n < maxMut && round < 4; round++ {
			for _, c := range classes {
				l := byClass[c]
				if len(l) == 0 || n >= maxMut {
					continue
				}
				k := rng.Intn(len(l))
				m := l[k]
				byClass[c] = append(l[:k:k], l[k+1:]...)
				if c07Emit("mut", m.class, m.must, m.pid, m.call, m.bind, m.prog.render(c07StageCmd)) {
					stats["mut_"+m.class]++
					n++
				}
			}
		}
	}
	fmt.Fprintln(os.Stderr, "c07 stats "+c7sortedStats(stats))
}

// hand-written programs for shapes the random generator reaches rarely
var c07Corpus = []string{
	// (a) map-mode mapped call whose split parameter is a typed map
	`stage S(
    in  map<int> p,
    out int o,
    src comp "vh __stage S",
)

pipeline P(
    out map<int> r,
)
{
    map call S(
        p = split {"k": {"a": 1}},
    )

    return (
        r = S.o,
    )
}

call P(
)
`,
	// map-mode mapped call whose callee output is a typed map
	`stage S(
    in  int p,
    out map<int> o,
    src comp "vh __stage S",
)

pipeline P(
    out int r,
)
{
    map call S(
        p = split {"k": 1},
    )

    return (
        r = 1,
    )
}

call P(
)
`,
	// array of structs bound to an array of typed maps
	`struct T(
    int a,
    int b,
)

stage A(
    out T[] o,
    src comp "vh __stage A",
)

stage B(
    in  map<int>[] p,
    out int o,
    src comp "vh __stage B",
)

pipeline P(
    out int r,
)
{
    call A(
    )

    call B(
        p = A.o,
    )

    return (
        r = B.o,
    )
}

call P(
)
`,
	// map call split over a typed map of structs (narrowed at the fork)
	`struct S1(
    string a0,
)

struct S2(
    string a0,
    int    b,
)

stage ST(
    in  map<S1>[] p0,
    out int       o0,
    src comp      "vh __stage ST",
)

pipeline P(
    in  S2       w,
    out map<int> r,
)
{
    map call ST(
        p0 = split {"k1": [{"x": self.w}], "k2": []},
    )

    return (
        r = ST.o0,
    )
}

call P(
    w = {a0: "s", b: 3},
)
`,
	// a struct written as a map literal, then projected
	`struct S1(
    string a0,
)

stage ST(
    in  string[] p,
    out int      o,
    src comp     "vh __stage ST",
)

pipeline P(
    in  S1[] xs,
    out int  r,
)
{
    call ST(
        p = self.xs.a0,
    )

    return (
        r = ST.o,
    )
}

call P(
    xs = [{"a0": "x"}, {a0: "y"}],
)
`,
	// mapped calls sharing one mapping, then a conflicting literal length
	`stage S(
    in  int p,
    in  int q,
    out int o,
    src comp "vh __stage S",
)

pipeline P(
    in  int[] xs,
    out int[] r,
)
{
    map call S(
        p = split self.xs,
        q = 1,
    )

    map call S as S2(
        p = split S.o,
        q = split [1, 2, 3],
    )

    return (
        r = S2.o,
    )
}

call P(
    xs = [1, 2, 3],
)
`,
}

// ---------------------------------------------------------------- implementation

type c07Loc struct{ pid, call, bind string }

func (l c07Loc) String() string { return hx.H(l.pid) + "/" + hx.H(l.call) + "/" + hx.H(l.bind) }

// lineTable maps the source line of every call, binding, return binding and
// input parameter of the parsed program to its location.
func c07LineTable(a *syntax.Ast) map[int]c07Loc {
	t := map[int]c07Loc{}
	put := func(line int, l c07Loc) {
		if _, ok := t[line]; !ok {
			t[line] = l
		}
	}
	doCall := func(pid string, c *syntax.CallStm) {
		if c.Bindings != nil {
			for _, b := range c.Bindings.List {
				put(b.Node.Loc.Line, c07Loc{pid, c.Id, b.Id})
			}
		}
		if c.Modifiers != nil && c.Modifiers.Bindings != nil {
			for _, b := range c.Modifiers.Bindings.List {
				put(b.Node.Loc.Line, c07Loc{pid, c.Id, b.Id})
			}
		}
		put(c.Node.Loc.Line, c07Loc{pid, c.Id, ""})
	}
	for _, p := range a.Pipelines {
		for _, c := range p.Calls {
			doCall(p.Id, c)
		}
		if p.Ret != nil && p.Ret.Bindings != nil {
			for _, b := range p.Ret.Bindings.List {
				put(b.Node.Loc.Line, c07Loc{p.Id, "return", b.Id})
			}
			put(p.Ret.Bindings.Node.Loc.Line, c07Loc{p.Id, "return", ""})
		}
		if p.InParams != nil {
			for _, ip := range p.InParams.List {
				put(ip.Node.Loc.Line, c07Loc{p.Id, "in", ip.Id})
			}
		}
	}
	if a.Call != nil {
		doCall("", a.Call)
	}
	return t
}

type c07Obs struct {
	accept bool
	crash  string
	locs   []string // sorted, unique
	graph  string   // ok, err, panic (accepted programs with a top-level call)
	detail string
}

func c07Compile(src string) (obs c07Obs) {
	defer func() {
		if r := recover(); r != nil {
			obs = c07Obs{crash: fmt.Sprint(r)}
		}
	}()
	parsed, perr := c07Parse(src)
	if perr != nil {
		return c07Obs{crash: "parse: " + perr.Error()}
	}
	table := c07LineTable(parsed)
	_, _, ast, err := syntax.ParseSourceBytes([]byte(src), "pipeline.mro", nil, false)
	if err != nil {
		set := map[string]bool{}
		for _, line := range syntax.VerifErrorLines(err) {
			if l, ok := table[line]; ok {
				set[l.String()] = true
			} else {
				set[fmt.Sprintf("?%d", line)] = true
			}
		}
		var locs []string
		for l := range set {
			locs = append(locs, l)
		}
		sort.Strings(locs)
		return c07Obs{locs: locs, detail: err.Error()}
	}
	obs = c07Obs{accept: true}
	if ast.Call != nil {
		obs.graph, obs.detail = c07Graph(ast)
	}
	return obs
}

// what mrp does right after compiling: the static call graph
func c07Graph(ast *syntax.Ast) (res, detail string) {
	defer func() {
		if r := recover(); r != nil {
			res, detail = "panic", fmt.Sprint(r)
		}
	}()
	if _, err := ast.MakeCallGraph("ID.", ast.Call); err != nil {
		return "err", err.Error()
	}
	return "ok", ""
}

func (o c07Obs) line() string {
	switch {
	case o.crash != "":
		return "crash"
	case o.accept:
		return "accept"
	}
	return "reject " + strings.Join(o.locs, ",")
}

func c07Impl(args []string) {
	hx.Lines(bufio.NewReader(os.Stdin), func(f []string) {
		fmt.Fprintln(hx.Out, c07Compile(hx.U(f[7])).line())
	})
}

// The property read directly on the implementation: the generated base
// program is accepted and its call graph resolves; a guaranteed ill-typed
// mutation is rejected, with an error located in the mutated binding (or in
// the call, for the call-level classes).
func c07Oracle(args []string) {
	oneLine := func(s string) string {
		s = strings.Join(strings.Fields(s), " ")
		if len(s) > 300 {
			s = s[:300]
		}
		return s
	}
	hx.Lines(bufio.NewReader(os.Stdin), func(f []string) {
		kind, class, must := f[1], f[2], f[3] == "1"
		site := c07Loc{hx.U(f[4]), hx.U(f[5]), hx.U(f[6])}
		o := c07Compile(hx.U(f[7]))
		switch {
		case o.crash != "":
			fmt.Fprintf(hx.Out, "FAIL compiler_panic %s\n", oneLine(o.crash))
		case o.accept && o.graph == "panic":
			fmt.Fprintf(hx.Out, "FAIL %s %s\n", c07PanicClass(o.detail), oneLine(o.detail))
		case o.accept && o.graph == "err" && c07LateSplitReject(o.detail):
			// the collections the top-level call supplies to split arguments
			// inside a pipeline disagree: found (and located) when the call
			// graph is resolved, before anything runs
			fmt.Fprintln(hx.Out, "ok late_split_reject")
		case o.accept && o.graph == "err":
			fmt.Fprintf(hx.Out, "FAIL %s %s\n", c07GraphErrClass(o.detail), oneLine(o.detail))
		case kind != "mut" || !must:
			if o.accept {
				fmt.Fprintln(hx.Out, "ok")
			} else {
				fmt.Fprintln(hx.Out, "skip")
			}
		case o.accept:
			fmt.Fprintf(hx.Out, "FAIL accepted_illtyped_%s site=%s/%s/%s\n", class, site.pid, site.call, site.bind)
		default:
			found := false
			callLevel := site.bind == ""
			for _, l := range o.locs {
				p := strings.Split(l, "/")
				if len(p) != 3 {
					continue
				}
				if hx.U(p[0]) == site.pid && hx.U(p[1]) == site.call &&
					(hx.U(p[2]) == site.bind || callLevel || class == "duplicate_binding") {
					found = true
				}
			}
			if found {
				fmt.Fprintln(hx.Out, "ok")
			} else {
				fmt.Fprintf(hx.Out, "FAIL mislocated_%s site=%s/%s/%s reported=%s %s\n", class,
					site.pid, site.call, site.bind, strings.Join(o.locs, ","), oneLine(o.detail))
			}
		}
	})
}

// Value-level conditions the top-level call's literals violate inside a called
// pipeline (sizes of split collections disagree, a null reaches a disabled
// modifier): found and located when the call graph is resolved, before
// anything runs; they are not type errors of a binding.
func c07LateSplitReject(msg string) bool {
	return strings.Contains(msg, "length mismatch") || strings.Contains(msg, "map key missing") ||
		strings.Contains(msg, "cannot split over both") ||
		strings.Contains(msg, "disabled cannot be bound to a null value")
}

func c07GraphErrClass(msg string) string {
	if strings.Contains(msg, "cannot be bound inside an untyped map") ||
		strings.Contains(msg, "to untyped map: contains reference") {
		return "call_graph_error_struct_with_references_bound_to_untyped_map"
	}
	if strings.Contains(msg, "map call generates a nested map") {
		return "call_graph_error_nested_typed_map_call"
	}
	if strings.Contains(msg, "binding within a") || strings.Contains(msg, "no element ") {
		return "call_graph_error_projection_through_map_syntax_struct"
	}
	return "accepted_but_call_graph_error"
}

func c07PanicClass(msg string) string {
	if strings.Contains(msg, "map<map> is not allowed") {
		return "call_graph_panic_map_of_map"
	}
	return "call_graph_panic"
}

// ---------------------------------------------------------------- kernel sample

// vh c07 coq <cases> <impl> <n>: a .v file whose vm_compute evaluates
// Typing.typecheck on the first n cases (spread over the file) and compares
// with the implementation's observation.
func c07Coq(args []string) {
	cases, _ := os.ReadFile(args[0])
	impl, _ := os.ReadFile(args[1])
	var n int
	fmt.Sscan(args[2], &n)
	cl := strings.Split(strings.TrimSpace(string(cases)), "\n")
	il := strings.Split(strings.TrimSpace(string(impl)), "\n")
	step := len(cl) / n
	if step < 1 {
		step = 1
	}
	var b strings.Builder
	b.WriteString("From Coq Require Import String.\nFrom Martian Require Import Lib.Bytes Json.Json Mro.Ast K.JsonTypes Mro.Typing.\nOpen Scope string_scope.\n")
	b.WriteString("Definition obs (a : ast) : bool * list loc := match typecheck a with RAccept => (true, []) | RReject l => (false, l) | RUnsupported => (true, [(unhex \"3f\", [], [])]) end.\n")
	b.WriteString("Definition cases : list (ast * (bool * list loc) * bool) := [\n")
	count := 0
	for i := 0; i < len(cl) && count < n; i += step {
		f := strings.Split(cl[i], " ")
		ast, err := c07Parse(hx.U(f[7]))
		if err != nil || i >= len(il) {
			continue
		}
		o := il[i]
		var want string
		switch {
		case o == "accept":
			want = "(true, [])"
		case strings.HasPrefix(o, "reject"):
			var locs []string
			for _, l := range strings.Split(strings.TrimPrefix(o, "reject "), ",") {
				p := strings.Split(l, "/")
				if len(p) != 3 {
					locs = nil
					break
				}
				locs = append(locs, fmt.Sprintf("(%s, %s, %s)", astdump.B(hx.U(p[0])).Coq(), astdump.B(hx.U(p[1])).Coq(), astdump.B(hx.U(p[2])).Coq()))
			}
			want = "(false, [" + strings.Join(locs, "; ") + "])"
		default:
			continue
		}
		if count > 0 {
			b.WriteString(";\n")
		}
		fmt.Fprintf(&b, "(%s, %s, true)", astdump.Ast(ast).Coq(), want)
		count++
	}
	b.WriteString("].\n")
	// same verdict, and the same set of locations
	b.WriteString(`Definition loc_eqb (x y : loc) : bool :=
  bytes_eqb (fst (fst x)) (fst (fst y)) && bytes_eqb (snd (fst x)) (snd (fst y)) && bytes_eqb (snd x) (snd y).
Definition subset (x y : list loc) : bool := forallb (fun l => existsb (loc_eqb l) y) x.
Definition agree (c : ast * (bool * list loc) * bool) : bool :=
  let '(a, (acc, locs), _) := c in
  match typecheck a with
  | RUnsupported => true
  | RAccept => acc
  | RReject l => negb acc && subset l locs && subset locs l
  end.
Definition M := List.filter (fun c => negb (agree c)) cases.
Definition COUNT := List.length cases.
Eval vm_compute in (List.length M).
Eval vm_compute in COUNT.
`)
	fmt.Fprint(hx.Out, b.String())
}

// vh c07 coqterm < source.mro : the parser-built Ast as a Gallina term
func c07CoqTerm(args []string) {
	b, _ := os.ReadFile("/dev/stdin")
	ast, err := c07Parse(string(b))
	if err != nil {
		fmt.Fprintln(os.Stderr, err)
		os.Exit(1)
	}
	fmt.Fprintln(hx.Out, astdump.Ast(ast).Coq())
}
