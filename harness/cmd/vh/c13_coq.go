package main

// vh c13 coq <cases> <impl> <max>: renders up to <max> post-processing cases
// together with the implementation's observed record and error flag as a Coq
// file whose vm_compute evaluation lists the cases on which the model, run
// inside the kernel, disagrees (M = [] when there are none).

import (
	"bufio"
	"fmt"
	"os"
	"strconv"
	"strings"

	"verifharness/internal/hx"
)

func init() {
	p := props["c13"]
	if p == nil {
		p = &propCmd{gen: c13Gen, impl: c13Impl, oracle: c13Oracle}
		props["c13"] = p
	}
	if p.extra == nil {
		p.extra = map[string]func([]string){}
	}
	p.extra["coq"] = c13CoqCases
}

func coqBytes(s string) string { return "(unhex \"" + hexOrEmpty(s) + "\")" }

func (t *c13Type) coq() string {
	switch t.k {
	case 'i':
		return "(TPlain KNot)"
	case 's', 'u':
		return "(TPlain KMay)"
	case 'f', 'p':
		return "(TFile None)"
	case 'x':
		return "(TFile (Some " + coqBytes(t.name) + "))"
	case 'A':
		r := t.elem.coq()
		for i := 0; i < t.dim; i++ {
			r = "(TArr " + r + ")"
		}
		return r
	case 'M':
		return "(TMap " + t.elem.coq() + ")"
	case 'S':
		return "(TStruct " + c13CoqMembers(t.members) + ")"
	}
	panic("bad type")
}

func c13CoqMembers(ms []c13Member) string {
	parts := make([]string, len(ms))
	for i, m := range ms {
		parts[i] = "(" + coqBytes(m.id) + ", " + m.t.coq() + ", " + coqBytes(m.out) + ")"
	}
	return "[" + strings.Join(parts, "; ") + "]"
}

func readLines(path string) []string {
	f, err := os.Open(path)
	if err != nil {
		panic(err)
	}
	defer f.Close()
	var out []string
	sc := bufio.NewScanner(f)
	sc.Buffer(make([]byte, 1<<20), 1<<28)
	for sc.Scan() {
		out = append(out, sc.Text())
	}
	return out
}

func c13CoqCases(args []string) {
	cases, impl := readLines(args[0]), readLines(args[1])
	max, _ := strconv.Atoi(args[2])
	w := hx.Out
	fmt.Fprintln(w, "From Coq Require Import String.")
	fmt.Fprintln(w, "From Martian Require Import Lib.Bytes Json.Json K.PostProcess.")
	fmt.Fprintln(w, "Open Scope string_scope.")
	fmt.Fprintln(w, "Definition ent (p : string) (n : node) : list (path * node) :=")
	fmt.Fprintln(w, "  match parse_abs (unhex p) with Some q => [(q, n)] | None => [] end.")
	fmt.Fprintln(w, "Definition base := List.concat [ent \""+hexOrEmpty("/R")+"\" NDir; ent \""+hexOrEmpty("/R/ps")+"\" NDir; ent \""+
		hexOrEmpty("/R/ps/w")+"\" NDir; ent \""+hexOrEmpty("/R/ext")+"\" NDir; ent \""+hexOrEmpty("/R/ps2")+"\" NDir].")
	fmt.Fprintln(w, "Definition ps : path := match parse_abs (unhex \""+hexOrEmpty("/R/ps")+"\") with Some p => p | None => [] end.")
	fmt.Fprintln(w, "Definition agrees (c : nat * mode * list member * list (path * node) * json * json * bool) : bool :=")
	fmt.Fprintln(w, "  let '(_, md, params, entries, v, expect, experr) := c in")
	fmt.Fprintln(w, "  let '(v', s') := post_process md ps params v (init_st (rev (List.app base entries))) in")
	fmt.Fprintln(w, "  unm s' || (json_eqb (json_canon v') expect && Bool.eqb (err s') experr).")
	fmt.Fprintln(w, "Definition cases : list (nat * mode * list member * list (path * node) * json * json * bool) := [")
	n := 0
	for i, line := range cases {
		if n >= max || i >= len(impl) {
			break
		}
		f := strings.Split(line, " ")
		o := strings.Split(impl[i], " ")
		if f[0] != "c" || len(o) != 3 || o[1] == "INVALID" || len(line) > 3000 {
			continue
		}
		mode, ms, fsys, outs := c13ParseCase(f)
		expect, err := c13DecodeEnc(o[1])
		if err != nil {
			continue
		}
		var ents []string
		for _, e := range fsys {
			node := "NDir"
			switch e.kind {
			case 'F':
				node = "(NFile " + coqBytes(e.data) + ")"
			case 'L':
				node = "(NLink " + coqBytes(e.data) + ")"
			}
			ents = append(ents, "ent \""+hexOrEmpty(e.path)+"\" "+node)
		}
		entries := "[]"
		if len(ents) > 0 {
			entries = "(List.concat [" + strings.Join(ents, "; ") + "])"
		}
		md := map[string]string{"s": "MSingle", "a": "MArray", "m": "MMap"}[mode]
		if n > 0 {
			fmt.Fprintln(w, ";")
		}
		fmt.Fprintf(w, "(%d%%nat, %s, %s, %s, %s, %s, %v)", i, md, c13CoqMembers(ms), entries, outs.Coq(), expect.Coq(), o[0] == "E")
		n++
	}
	fmt.Fprintln(w, "].")
	fmt.Fprintln(w, "Definition M := Eval vm_compute in map (fun c => let '(i, _, _, _, _, _, _) := c in i) (filter (fun c => negb (agrees c)) cases).")
	fmt.Fprintln(w, "Print M.")
	fmt.Fprintf(w, "(* %d cases *)\n", n)
}
