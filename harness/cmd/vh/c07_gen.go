package main

// C07: generator of MRO programs over the full type language (builtins, user
// file types, structs, multi-dimensional arrays, typed maps of arrays, untyped
// maps), with bindings chosen to be well typed through every implicit
// conversion, and of single-point ill-typed mutations of them.

import (
	"fmt"
	"sort"
	"strings"

	"verifharness/internal/hx"
)

type c7ty struct {
	base string
	arr  int
	mp   int // 0: not a typed map; k+1: map<base[]^k>
}

func (t c7ty) String() string {
	s := t.base
	if t.mp > 0 {
		s = "map<" + s + strings.Repeat("[]", t.mp-1) + ">"
	}
	return s + strings.Repeat("[]", t.arr)
}

type c7field struct {
	name string
	t    c7ty
}

type c7ex struct {
	k     byte // i f s b n a m o r p
	text  string
	items []*c7ex
	keys  []string
	inner *c7ex
}

func (e *c7ex) String() string {
	switch e.k {
	case 'a':
		p := make([]string, len(e.items))
		for i, x := range e.items {
			p[i] = x.String()
		}
		return "[" + strings.Join(p, ", ") + "]"
	case 'm':
		if len(e.items) == 0 {
			return "{}"
		}
		p := make([]string, len(e.items))
		for i, x := range e.items {
			p[i] = fmt.Sprintf("%q: %s", e.keys[i], x.String())
		}
		return "{" + strings.Join(p, ", ") + "}"
	case 'o':
		p := make([]string, len(e.items))
		for i, x := range e.items {
			p[i] = fmt.Sprintf("%s: %s", e.keys[i], x.String())
		}
		return "{" + strings.Join(p, ", ") + "}"
	case 'p':
		return "split " + e.inner.String()
	}
	return e.text
}

func (e *c7ex) clone() *c7ex {
	c := *e
	c.items = make([]*c7ex, len(e.items))
	for i, x := range e.items {
		c.items[i] = x.clone()
	}
	c.keys = append([]string(nil), e.keys...)
	if e.inner != nil {
		c.inner = e.inner.clone()
	}
	return &c
}

type c7bind struct {
	id string
	e  *c7ex
}

type c7call struct {
	id, callee string
	mapped     bool
	mode       string // "", "arr", "map": the dimension a mapped call adds
	binds      []c7bind
	disabled   string
}

type c7callable struct {
	name   string
	stage  bool
	ins    []c7field
	outs   []c7field
	calls  []*c7call
	ret    []c7bind
	outVal map[string]hx.JV // stage: the conforming constant it emits
	// every reference expression available in the pipeline (legal or not),
	// with the index of the call that produces it (-1: an input)
	allRefs []c7ref
}

type c7ref struct {
	text string
	idx  int
}

type c7prog struct {
	filetypes []string
	structs   []*c7callable // name + outs used as members
	callables []*c7callable
	top       *c7call
	// revCalls: write the calls of every pipeline in reverse order.  MRO
	// does not require calls to be written in dependency order (the compiler
	// sorts them); typing must not depend on the order either.
	revCalls bool
}

func (p *c7prog) clone() *c7prog {
	q := &c7prog{filetypes: p.filetypes, structs: p.structs, revCalls: p.revCalls}
	cl := func(c *c7call) *c7call {
		if c == nil {
			return nil
		}
		d := *c
		d.binds = make([]c7bind, len(c.binds))
		for i, b := range c.binds {
			d.binds[i] = c7bind{b.id, b.e.clone()}
		}
		return &d
	}
	for _, c := range p.callables {
		d := *c
		d.ins = append([]c7field(nil), c.ins...)
		d.outs = append([]c7field(nil), c.outs...)
		d.calls = nil
		for _, cs := range c.calls {
			d.calls = append(d.calls, cl(cs))
		}
		d.ret = make([]c7bind, len(c.ret))
		for i, b := range c.ret {
			d.ret[i] = c7bind{b.id, b.e.clone()}
		}
		q.callables = append(q.callables, &d)
	}
	q.top = cl(p.top)
	return q
}

func (p *c7prog) render(stageCmd string) string {
	var b strings.Builder
	for _, f := range p.filetypes {
		fmt.Fprintf(&b, "filetype %s;\n", f)
	}
	for _, s := range p.structs {
		fmt.Fprintf(&b, "\nstruct %s(\n", s.name)
		for _, m := range s.outs {
			fmt.Fprintf(&b, "    %s %s,\n", m.t, m.name)
		}
		b.WriteString(")\n")
	}
	wcall := func(c *c7call, ind string) {
		kw := "call"
		if c.mapped {
			kw = "map call"
		}
		name := c.callee
		if c.id != c.callee {
			name += " as " + c.id
		}
		fmt.Fprintf(&b, "%s%s %s(\n", ind, kw, name)
		for _, bd := range c.binds {
			fmt.Fprintf(&b, "%s    %s = %s,\n", ind, bd.id, bd.e)
		}
		if c.disabled != "" {
			fmt.Fprintf(&b, "%s) using (\n%s    disabled = %s,\n", ind, ind, c.disabled)
		}
		fmt.Fprintf(&b, "%s)\n", ind)
	}
	for _, c := range p.callables {
		if c.stage {
			fmt.Fprintf(&b, "\nstage %s(\n", c.name)
		} else {
			fmt.Fprintf(&b, "\npipeline %s(\n", c.name)
		}
		for _, f := range c.ins {
			fmt.Fprintf(&b, "    in  %s %s,\n", f.t, f.name)
		}
		for _, f := range c.outs {
			if f.name == "default" {
				// the default output is declared without a name
				fmt.Fprintf(&b, "    out %s,\n", f.t)
				continue
			}
			fmt.Fprintf(&b, "    out %s %s,\n", f.t, f.name)
		}
		if c.stage {
			fmt.Fprintf(&b, "    src comp \"%s %s\",\n)\n", stageCmd, c.name)
			continue
		}
		b.WriteString(")\n{\n")
		for i := range c.calls {
			cs := c.calls[i]
			if p.revCalls {
				cs = c.calls[len(c.calls)-1-i]
			}
			wcall(cs, "    ")
			b.WriteString("\n")
		}
		b.WriteString("    return (\n")
		for _, bd := range c.ret {
			fmt.Fprintf(&b, "        %s = %s,\n", bd.id, bd.e)
		}
		b.WriteString("    )\n}\n")
	}
	if p.top != nil {
		b.WriteString("\n")
		wcall(p.top, "")
	}
	return b.String()
}

// ---------------------------------------------------------------- generator

type c7gen struct {
	r       *hx.Rng
	p       *c7prog
	runtime bool // programs meant to be run: dynamic sizes must agree
	n       int
	stats   map[string]int
}

func (g *c7gen) fresh(prefix string) string {
	g.n++
	return fmt.Sprintf("%s%d", prefix, g.n)
}

func (g *c7gen) structByName(n string) *c7callable {
	for _, s := range g.p.structs {
		if s.name == n {
			return s
		}
	}
	for _, c := range g.p.callables {
		if c.name == n && len(c.outs) > 0 {
			return c
		}
	}
	return nil
}

func (g *c7gen) isFiletype(n string) bool {
	for _, f := range g.p.filetypes {
		if f == n {
			return true
		}
	}
	return false
}

var c7builtins = []string{"int", "float", "string", "bool", "file", "path", "map"}

func (g *c7gen) randBase(structs bool) string {
	k := g.r.Intn(12)
	switch {
	case k < 7:
		return c7builtins[k]
	case k < 9 && len(g.p.filetypes) > 0:
		return hx.Pick(g.r, g.p.filetypes)
	case structs && len(g.p.structs) > 0:
		return hx.Pick(g.r, g.p.structs).name
	}
	return hx.Pick(g.r, c7builtins[:4])
}

func (g *c7gen) randType(structs bool) c7ty {
	t := c7ty{base: g.randBase(structs)}
	switch g.r.Intn(10) {
	case 0, 1:
		t.arr = 1
	case 2:
		t.arr = 2
	case 3:
		if t.base != "map" {
			t.mp = 1
		}
	case 4:
		if t.base != "map" {
			t.mp = 2
		}
	case 5:
		if t.base != "map" {
			t.mp = 1
			t.arr = 1
		}
	}
	return t
}

// fileLike: a typed map of these is directory-like, so literal keys must be
// file names (they always are here).
func (g *c7gen) litScalar(base string) *c7ex {
	switch base {
	case "int":
		switch g.r.Intn(8) {
		case 0:
			return &c7ex{k: 'f', text: fmt.Sprintf("%d.0", g.r.Intn(50))} // integral float literal
		case 1:
			return &c7ex{k: 'i', text: hx.Pick(g.r, []string{"4611686018427387904", "-9223372036854775807", "0"})}
		}
		return &c7ex{k: 'i', text: fmt.Sprint(g.r.Intn(200) - 100)}
	case "float":
		if g.r.Intn(3) == 0 {
			return &c7ex{k: 'i', text: fmt.Sprint(g.r.Intn(100))}
		}
		return &c7ex{k: 'f', text: hx.Pick(g.r, []string{"1.5", "-0.25", "2.0", "1e3", "3.25e-2", "0.1"})}
	case "bool":
		return &c7ex{k: 'b', text: hx.Pick(g.r, []string{"true", "false"})}
	case "map":
		return hx.Pick(g.r, []*c7ex{
			{k: 'm'},
			{k: 'm', keys: []string{"a"}, items: []*c7ex{{k: 'i', text: "1"}}},
			{k: 'm', keys: []string{"a", "b"}, items: []*c7ex{{k: 's', text: `"x"`}, {k: 'a', items: []*c7ex{{k: 'i', text: "1"}, {k: 'n', text: "null"}}}}},
		}).clone()
	}
	// string, file, path, user file types
	return &c7ex{k: 's', text: fmt.Sprintf("%q", hx.Pick(g.r, []string{"x", "/a/b.txt", "some string", ""}))}
}

// a source of values inside a pipeline
type c7src struct {
	ref    string
	t      c7ty
	mapped bool // an output of a mapped call
}

type c7scope struct {
	pipe *c7callable
	srcs []c7src
}

// conv: a value of type o can be bound to a parameter of type t (the
// generator's own conservative notion; the compiler and the model decide).
func (g *c7gen) conv(t, o c7ty) bool {
	if t.arr != o.arr || t.mp != o.mp {
		return false
	}
	if t.base == o.base {
		return true
	}
	switch {
	case t.base == "float" && o.base == "int":
		return true
	case (t.base == "file" || t.base == "path") && o.base == "string":
		return true
	case (t.base == "file" || t.base == "string") && g.isFiletype(o.base):
		return true
	case g.isFiletype(t.base) && (o.base == "file" || o.base == "string"):
		return true
	}
	ts, os := g.structByName(t.base), g.structByName(o.base)
	if ts != nil && os != nil {
		for _, m := range ts.outs {
			ok := false
			for _, om := range os.outs {
				if om.name == m.name && (om.t == m.t || (om.t.arr == m.t.arr && om.t.mp == m.t.mp && g.conv(m.t, om.t))) {
					ok = true
				}
			}
			if !ok {
				return false
			}
		}
		return true
	}
	if t.base == "map" && os != nil && t.mp == 0 && t.arr == 0 {
		return true
	}
	return false
}

// projections of a source through struct fields (one or two levels)
func (g *c7gen) project(s c7src, depth int) []c7src {
	out := []c7src{s}
	st := g.structByName(s.t.base)
	if st == nil || depth == 0 {
		return out
	}
	for _, m := range st.outs {
		// lift the member type through the outer dimensions
		it := m.t
		if s.t.mp > 0 {
			if it.mp > 0 || it.base == "map" {
				continue // projection through nested maps (map<map[]> cannot be written either)
			}
			it = c7ty{base: it.base, mp: s.t.mp + it.arr}
		}
		it.arr += s.t.arr
		out = append(out, g.project(c7src{s.ref + "." + m.name, it, s.mapped}, depth-1)...)
	}
	return out
}

// genBind: the expression bound to a parameter.  Only here (the whole
// binding is one reference) can 'STAGE' stand for 'STAGE.default'.
func (g *c7gen) genBind(sc *c7scope, t c7ty, depth int) *c7ex {
	if sc != nil && g.r.Intn(100) < 45 {
		var bare []c7src
		for _, s := range sc.srcs {
			if strings.HasSuffix(s.ref, ".default") && strings.Count(s.ref, ".") == 1 && !strings.HasPrefix(s.ref, "self.") &&
				!s.mapped && s.t.mp == 0 && g.structByName(t.base) == nil && t.mp == 0 && g.conv(t, s.t) {
				bare = append(bare, c7src{strings.TrimSuffix(s.ref, ".default"), s.t, s.mapped})
			}
		}
		if len(bare) > 0 && g.r.Intn(2) == 0 {
			g.stats["ref_default_shorthand"]++
			return &c7ex{k: 'r', text: hx.Pick(g.r, bare).ref}
		}
	}
	return g.genExp(sc, t, depth)
}

func (g *c7gen) genExp(sc *c7scope, t c7ty, depth int) *c7ex {
	if g.r.Intn(12) == 0 {
		return &c7ex{k: 'n', text: "null"}
	}
	if sc != nil && g.r.Intn(100) < 45 {
		var cands []c7src
		for _, s := range sc.srcs {
			for _, ps := range g.project(s, 2) {
				if g.conv(t, ps.t) {
					cands = append(cands, ps)
				}
			}
		}
		if len(cands) > 0 && g.r.Intn(4) != 0 {
			g.stats["ref"]++
			c := hx.Pick(g.r, cands)
			if strings.Contains(c.ref[strings.Index(c.ref, ".")+1:], ".") {
				g.stats["ref_projection"]++
			}
			if c.t != t {
				g.stats["ref_conversion"]++
			}
			return &c7ex{k: 'r', text: c.ref}
		}
		if sc.pipe != nil && len(sc.pipe.ins) < 6 {
			// a new pipeline input of a type that converts to t
			it := t
			if it.arr == 0 && it.mp == 0 && g.r.Intn(3) == 0 {
				switch t.base {
				case "float":
					it.base = "int"
				case "file":
					it.base = "string"
				}
			}
			name := g.fresh("i")
			sc.pipe.ins = append(sc.pipe.ins, c7field{name, it})
			sc.srcs = append(sc.srcs, c7src{"self." + name, it, false})
			g.stats["ref_new_input"]++
			return &c7ex{k: 'r', text: "self." + name}
		}
	}
	g.stats["literal"]++
	if t.arr > 0 {
		n := g.r.Intn(4)
		if depth <= 0 {
			n = g.r.Intn(2)
		}
		e := &c7ex{k: 'a'}
		et := t
		et.arr--
		for i := 0; i < n; i++ {
			e.items = append(e.items, g.genExp(sc, et, depth-1))
		}
		return e
	}
	if t.mp > 0 {
		n := g.r.Intn(3)
		if depth <= 0 {
			n = g.r.Intn(2)
		}
		e := &c7ex{k: 'm'}
		et := c7ty{base: t.base, arr: t.mp - 1}
		for i := 0; i < n; i++ {
			e.keys = append(e.keys, []string{"k1", "k2", "k3"}[i])
			e.items = append(e.items, g.genExp(sc, et, depth-1))
		}
		return e
	}
	if st := g.structByName(t.base); st != nil {
		e := &c7ex{k: 'o'}
		if g.r.Intn(3) == 0 {
			e.k = 'm' // a struct may also be written as a map literal
		}
		for _, m := range st.outs {
			e.keys = append(e.keys, m.name)
			e.items = append(e.items, g.genExp(sc, m.t, depth-1))
		}
		if e.k == 'm' {
			// map literal keys are rendered sorted by the formatter; order is irrelevant
		}
		return e
	}
	return g.litScalar(t.base)
}

func (g *c7gen) genStruct() {
	s := &c7callable{name: g.fresh("S")}
	n := 1 + g.r.Intn(3)
	for i := 0; i < n; i++ {
		t := g.randType(true)
		if t.base == s.name {
			t.base = "int"
		}
		s.outs = append(s.outs, c7field{fmt.Sprintf("%c%d", 'a'+i, len(g.p.structs)), t})
	}
	g.p.structs = append(g.p.structs, s)
	// sometimes a narrower / convertible sibling
	if g.r.Intn(2) == 0 {
		w := &c7callable{name: g.fresh("S")}
		for _, m := range s.outs {
			mt := m.t
			if mt.arr == 0 && mt.mp == 0 && mt.base == "float" && g.r.Bool() {
				mt.base = "int"
			}
			w.outs = append(w.outs, c7field{m.name, mt})
		}
		w.outs = append(w.outs, c7field{"extra" + fmt.Sprint(len(g.p.structs)), g.randType(false)})
		g.p.structs = append(g.p.structs, w)
		g.stats["struct_wider_sibling"]++
	}
}

func (g *c7gen) genStage() *c7callable {
	st := &c7callable{name: g.fresh("ST"), stage: true}
	ni, no := g.r.Intn(4), 1+g.r.Intn(3)
	for i := 0; i < ni; i++ {
		st.ins = append(st.ins, c7field{fmt.Sprintf("p%d", i), g.randType(true)})
	}
	for i := 0; i < no; i++ {
		name := fmt.Sprintf("o%d", i)
		st.outs = append(st.outs, c7field{name, g.randType(true)})
	}
	if g.r.Intn(3) == 0 {
		// an output named "default": 'arg = STAGE' is then also shorthand for
		// 'arg = STAGE.default' (the martian 3 spelling, still accepted for
		// types that are not structs or typed maps)
		t := c7ty{base: hx.Pick(g.r, []string{"int", "float", "string", "bool", "file", "int", "float"})}
		if g.r.Intn(4) == 0 {
			t.arr = 1
		}
		st.outs[0] = c7field{"default", t}
		g.stats["stage_with_default_output"]++
	}
	g.p.callables = append(g.p.callables, st)
	return st
}

// the dimension a mapped call adds to an output type; ok=false: not allowed
func c7lift(t c7ty, mode string) (c7ty, bool) {
	switch mode {
	case "arr":
		t.arr++
	case "map":
		if t.mp != 0 || t.base == "map" {
			return t, false // map<map<..>> and map<map> cannot be written
		}
		t.mp = t.arr + 1
		t.arr = 0
	}
	return t, true
}

func (g *c7gen) genCall(sc *c7scope, callee *c7callable, idx int) *c7call {
	c := &c7call{id: callee.name, callee: callee.name}
	for _, o := range sc.pipe.calls {
		if o.id == c.id {
			c.id = fmt.Sprintf("%s_%d", callee.name, idx)
		}
	}
	if len(callee.ins) > 0 && g.r.Intn(100) < 35 {
		c.mapped = true
		c.mode = hx.Pick(g.r, []string{"arr", "arr", "map"})
	}
	// in runtime programs exactly one split source, so dynamic sizes agree
	nsplit := 0
	var keys []string
	size := g.r.Intn(3)
	if g.runtime {
		size = 1 + g.r.Intn(2)
	}
	for i := 0; i < size; i++ {
		keys = append(keys, []string{"k1", "k2", "k3"}[i])
	}
	order := g.r.Intn(len(callee.ins) + 1)
	for i, p := range callee.ins {
		split := c.mapped && (nsplit == 0 && i >= order-1 || (!g.runtime && g.r.Intn(3) == 0))
		if c.mapped && nsplit == 0 && i == len(callee.ins)-1 {
			split = true
		}
		if c.mode == "map" && p.t.mp != 0 {
			// split over a map of typed maps does not exist
			if nsplit > 0 || i < len(callee.ins)-1 {
				split = false
			}
		}
		if !split {
			c.binds = append(c.binds, c7bind{p.name, g.genBind(sc, p.t, 2)})
			continue
		}
		nsplit++
		ct, ok := c7lift(p.t, c.mode)
		var inner *c7ex
		useRef := ok && g.r.Intn(100) < 50 && (!g.runtime || nsplit == 1)
		if useRef {
			var cands []c7src
			for _, s := range sc.srcs {
				if g.runtime && s.mapped {
					continue // splitting over a mapped call's output: recorded under C01/C03
				}
				for _, ps := range g.project(s, 1) {
					if g.conv(ct, ps.t) {
						cands = append(cands, ps)
					}
				}
			}
			if len(cands) > 0 && g.r.Bool() {
				inner = &c7ex{k: 'r', text: hx.Pick(g.r, cands).ref}
				g.stats["split_ref"]++
			} else if len(sc.pipe.ins) < 7 {
				name := g.fresh("i")
				sc.pipe.ins = append(sc.pipe.ins, c7field{name, ct})
				sc.srcs = append(sc.srcs, c7src{"self." + name, ct, false})
				inner = &c7ex{k: 'r', text: "self." + name}
				g.stats["split_new_input"]++
			}
		}
		if inner == nil {
			if g.runtime && nsplit > 1 {
				// a second split source would have to agree in size at run time
				c.binds = append(c.binds, c7bind{p.name, g.genBind(sc, p.t, 2)})
				nsplit--
				continue
			}
			g.stats["split_literal"]++
			n := len(keys)
			if n == 0 {
				n = 1
				keys = []string{"k1"}
			}
			if c.mode == "arr" {
				inner = &c7ex{k: 'a'}
			} else {
				inner = &c7ex{k: 'm'}
			}
			for j := 0; j < n; j++ {
				inner.items = append(inner.items, g.genExp(sc, p.t, 1))
				if c.mode == "map" {
					inner.keys = append(inner.keys, keys[j])
				}
			}
		}
		c.binds = append(c.binds, c7bind{p.name, &c7ex{k: 'p', inner: inner}})
	}
	if c.mapped && nsplit == 0 {
		c.mapped, c.mode = false, ""
	}
	if c.mapped {
		g.stats["map_call_"+c.mode]++
	}
	// wildcard: replace trailing reference bindings to self by `* = self`
	if !c.mapped && g.r.Intn(8) == 0 && len(c.binds) > 0 {
		last := c.binds[len(c.binds)-1]
		if last.e.k == 'r' && last.e.text == "self."+last.id {
			c.binds[len(c.binds)-1] = c7bind{"*", &c7ex{k: 'r', text: "self"}}
			g.stats["wildcard_self"]++
		}
	}
	if g.r.Intn(10) == 0 && !g.runtime {
		for _, s := range sc.srcs {
			if s.t == (c7ty{base: "bool"}) {
				c.disabled = s.ref
				g.stats["disabled"]++
				break
			}
		}
	}
	return c
}

func (g *c7gen) genPipeline(callables []*c7callable, top bool) *c7callable {
	p := &c7callable{name: g.fresh("PL")}
	sc := &c7scope{pipe: p}
	n := 1 + g.r.Intn(4)
	for i := 0; i < n; i++ {
		callee := hx.Pick(g.r, callables)
		c := g.genCall(sc, callee, i)
		p.calls = append(p.calls, c)
		for _, o := range callee.outs {
			if lt, ok := c7lift(o.t, c.mode); ok {
				sc.srcs = append(sc.srcs, c7src{c.id + "." + o.name, lt, c.mapped})
			}
		}
		if len(callee.outs) > 0 && !c.mapped {
			sc.srcs = append(sc.srcs, c7src{c.id, c7ty{base: callee.name}, false})
		}
		p.allRefs = append(p.allRefs, c7ref{c.id, i})
		for _, o := range callee.outs {
			p.allRefs = append(p.allRefs, c7ref{c.id + "." + o.name, i})
			if st := g.structByName(o.t.base); st != nil {
				for _, m := range st.outs {
					p.allRefs = append(p.allRefs, c7ref{c.id + "." + o.name + "." + m.name, i})
				}
			}
		}
	}
	// outputs: some of the sources, possibly converted, plus a literal
	no := 1 + g.r.Intn(3)
	for i := 0; i < no; i++ {
		name := fmt.Sprintf("r%d", i)
		var cands []c7src
		for _, s := range sc.srcs {
			if !strings.HasPrefix(s.ref, "self.") && !g.isCallableType(s.t.base) {
				cands = append(cands, g.project(s, 1)...)
			}
		}
		var cands2 []c7src
		for _, s := range cands {
			if !g.isCallableType(s.t.base) {
				cands2 = append(cands2, s)
			}
		}
		if len(cands2) > 0 && g.r.Intn(5) != 0 {
			s := hx.Pick(g.r, cands2)
			t := s.t
			if t.base == "int" && g.r.Intn(3) == 0 {
				t.base = "float"
			}
			p.outs = append(p.outs, c7field{name, t})
			p.ret = append(p.ret, c7bind{name, &c7ex{k: 'r', text: s.ref}})
		} else {
			t := g.randType(true)
			p.outs = append(p.outs, c7field{name, t})
			p.ret = append(p.ret, c7bind{name, g.genBind(sc, t, 2)})
		}
	}
	// every input must be used: bind unused ones into an extra output
	used := map[string]bool{}
	var walk func(e *c7ex)
	walk = func(e *c7ex) {
		if e.k == 'r' && strings.HasPrefix(e.text, "self.") {
			used[strings.SplitN(e.text[5:], ".", 2)[0]] = true
		}
		for _, x := range e.items {
			walk(x)
		}
		if e.inner != nil {
			walk(e.inner)
		}
	}
	for _, c := range p.calls {
		for _, b := range c.binds {
			walk(b.e)
			if b.id == "*" {
				for _, in := range p.ins {
					used[in.name] = true
				}
			}
		}
		if strings.HasPrefix(c.disabled, "self.") {
			used[c.disabled[5:]] = true
		}
	}
	for _, b := range p.ret {
		walk(b.e)
	}
	for _, in := range p.ins {
		if !used[in.name] {
			name := "u_" + in.name
			p.outs = append(p.outs, c7field{name, in.t})
			p.ret = append(p.ret, c7bind{name, &c7ex{k: 'r', text: "self." + in.name}})
		}
	}
	for _, in := range p.ins {
		p.allRefs = append(p.allRefs, c7ref{"self." + in.name, -1})
		if st := g.structByName(in.t.base); st != nil {
			for _, m := range st.outs {
				p.allRefs = append(p.allRefs, c7ref{"self." + in.name + "." + m.name, -1})
			}
		}
	}
	g.p.callables = append(g.p.callables, p)
	return p
}

func (g *c7gen) isCallableType(n string) bool {
	for _, c := range g.p.callables {
		if c.name == n {
			return true
		}
	}
	return false
}

func (g *c7gen) gen() *c7prog {
	g.p = &c7prog{}
	g.stats["programs"]++
	nf := g.r.Intn(3)
	for i := 0; i < nf; i++ {
		g.p.filetypes = append(g.p.filetypes, []string{"txt", "bam", "csv"}[i])
	}
	ns := g.r.Intn(3)
	for i := 0; i < ns; i++ {
		g.genStruct()
	}
	nst := 2 + g.r.Intn(3)
	var callables []*c7callable
	for i := 0; i < nst; i++ {
		callables = append(callables, g.genStage())
	}
	npl := g.r.Intn(3)
	for i := 0; i < npl; i++ {
		callables = append(callables, g.genPipeline(callables, false))
	}
	top := g.genPipeline(callables, true)
	if g.r.Intn(3) == 0 {
		g.p.revCalls = true
		g.stats["calls_written_in_reverse_order"]++
	}
	g.p.top = &c7call{id: top.name, callee: top.name}
	for _, in := range top.ins {
		g.p.top.binds = append(g.p.top.binds, c7bind{in.name, g.genExp(nil, in.t, 2)})
	}
	return g.p
}

// ---------------------------------------------------------------- mutations

type c7mut struct {
	class string
	must  bool   // guaranteed ill-typed
	pid   string // site: pipeline ("" = top-level call), call id or "return", binding id ("" = the call)
	call  string
	bind  string
	prog  *c7prog
}

type c7site struct {
	pid, call string
	c         *c7call       // nil for return bindings
	pl        *c7callable   // enclosing pipeline (nil for top)
	binds     *[]c7bind
	params    []c7field
	p         *c7prog
}

func (g *c7gen) sites(p *c7prog) []c7site {
	byName := map[string]*c7callable{}
	for _, c := range p.callables {
		byName[c.name] = c
	}
	var out []c7site
	for _, pl := range p.callables {
		if pl.stage {
			continue
		}
		for _, c := range pl.calls {
			out = append(out, c7site{pl.name, c.id, c, pl, &c.binds, byName[c.callee].ins, p})
		}
		out = append(out, c7site{pl.name, "return", nil, pl, &pl.ret, pl.outs, p})
	}
	if p.top != nil {
		out = append(out, c7site{"", p.top.id, p.top, nil, &p.top.binds, byName[p.top.callee].ins, p})
	}
	return out
}

func c7paramType(ps []c7field, id string) (c7ty, bool) {
	for _, f := range ps {
		if f.name == id {
			return f.t, true
		}
	}
	return c7ty{}, false
}

// a literal that no parameter of the given (scalar, non-collection) base accepts
func c7wrongScalar(base string, isStruct bool) *c7ex {
	switch base {
	case "int", "float":
		return &c7ex{k: 's', text: `"oops"`}
	case "bool":
		return &c7ex{k: 'i', text: "7"}
	case "map":
		return &c7ex{k: 'i', text: "7"}
	}
	if isStruct {
		return &c7ex{k: 's', text: `"oops"`}
	}
	return &c7ex{k: 'b', text: "true"} // string, file, path, user file types
}

// one-dimension shifts of a type
var c7shifts = []struct {
	class string
	f     func(t c7ty) (c7ty, bool)
}{
	{"ref_depth_outer_more", func(t c7ty) (c7ty, bool) { t.arr++; return t, true }},
	{"ref_depth_outer_less", func(t c7ty) (c7ty, bool) { t.arr--; return t, t.arr >= 0 }},
	{"ref_depth_in_map_more", func(t c7ty) (c7ty, bool) { t.mp++; return t, t.mp > 1 }},
	{"ref_depth_in_map_less", func(t c7ty) (c7ty, bool) { t.mp--; return t, t.mp >= 1 }},
	{"ref_map_for_array", func(t c7ty) (c7ty, bool) {
		return c7ty{base: t.base, arr: t.arr - 1, mp: 1}, t.arr > 0 && t.mp == 0 && t.base != "map"
	}},
	{"ref_array_for_map", func(t c7ty) (c7ty, bool) {
		return c7ty{base: t.base, arr: t.arr + t.mp}, t.mp > 0
	}},
}

// depthSafe: wrapping / unwrapping one array level certainly changes the
// type (null and the empty array are values of every array depth)
func c7depthSafe(e *c7ex) bool {
	switch e.k {
	case 'n':
		return false
	case 'a':
		if len(e.items) == 0 {
			return false
		}
		for _, x := range e.items {
			if !c7depthSafe(x) {
				return false
			}
		}
	}
	return true
}

// usesSelf: the expression references a pipeline input (replacing it could
// leave the input unused, which is reported first and elsewhere)
func c7usesSelf(e *c7ex) bool {
	if e.k == 'r' && strings.HasPrefix(e.text, "self") {
		return true
	}
	for _, x := range e.items {
		if c7usesSelf(x) {
			return true
		}
	}
	return e.inner != nil && c7usesSelf(e.inner)
}

// all single-point mutations of one program; each on its own copy
func (g *c7gen) mutations(p *c7prog) []c7mut {
	var out []c7mut
	base := g.sites(p)
	for si, s0 := range base {
		for bi, b0 := range *s0.binds {
			if b0.id == "*" {
				continue
			}
			t, ok := c7paramType(s0.params, b0.id)
			if !ok {
				continue
			}
			mk := func(class string, must bool, bind string, f func(s c7site, b *c7bind) bool) {
				q := p.clone()
				s := g.sites(q)[si]
				if f(s, &(*s.binds)[bi]) {
					out = append(out, c7mut{class, must, s.pid, s.call, bind, q})
				}
			}
			split := b0.e.k == 'p'
			isStruct := g.structByName(t.base) != nil
			// the expression that is checked against the parameter type: for a
			// split literal, its first element
			target := func(b *c7bind) **c7ex {
				if b.e.k == 'p' {
					if (b.e.inner.k == 'a' || b.e.inner.k == 'm') && len(b.e.inner.items) > 0 {
						return &b.e.inner.items[0]
					}
					return nil
				}
				return &b.e
			}
			// 1. wrong base type
			mk("wrong_base", true, b0.id, func(s c7site, b *c7bind) bool {
				tp := target(b)
				if tp == nil || c7usesSelf(*tp) {
					return false
				}
				var e *c7ex
				switch {
				case t.arr > 0:
					e = &c7ex{k: 'a', items: []*c7ex{}}
					x := e
					for d := 1; d < t.arr; d++ {
						y := &c7ex{k: 'a'}
						x.items = []*c7ex{y}
						x = y
					}
					if t.mp > 0 {
						x.items = []*c7ex{{k: 'i', text: "7"}}
					} else {
						x.items = []*c7ex{c7wrongScalar(t.base, isStruct)}
					}
				case t.mp > 0:
					inner := c7wrongScalar(t.base, isStruct)
					if t.mp > 1 {
						inner = &c7ex{k: 'i', text: "7"}
					}
					e = &c7ex{k: 'm', keys: []string{"k1"}, items: []*c7ex{inner}}
				default:
					e = c7wrongScalar(t.base, isStruct)
				}
				*tp = e
				return true
			})
			// 1b. the 'arg = STAGE' shorthand for STAGE.default with a default
			// output that does not / does convert to the parameter type
			if t.mp == 0 && !isStruct && !split && s0.pl != nil && t.base != "map" {
				byName := map[string]*c7callable{}
				for _, c := range p.callables {
					byName[c.name] = c
				}
				for _, oc := range s0.pl.calls {
					if oc == s0.c || oc.mapped || byName[oc.callee] == nil || len(byName[oc.callee].outs) == 0 ||
						byName[oc.callee].outs[0].name != "default" {
						continue
					}
					if s0.c != nil {
						// only calls written before this one (no cycle)
						before := false
						for _, x := range s0.pl.calls {
							if x == oc {
								before = true
							}
							if x == s0.c {
								break
							}
						}
						if !before {
							continue
						}
					}
					d := byName[oc.callee].outs[0].t
					id := oc.id
					if !g.conv(t, d) {
						mk("default_shorthand_wrong_type", true, b0.id, func(s c7site, b *c7bind) bool {
							if c7usesSelf(b.e) {
								return false
							}
							b.e = &c7ex{k: 'r', text: id}
							return true
						})
					} else if d != t {
						mk("default_shorthand_converts", false, b0.id, func(s c7site, b *c7bind) bool {
							if c7usesSelf(b.e) {
								return false
							}
							b.e = &c7ex{k: 'r', text: id}
							return true
						})
					}
				}
			}
			// 2. array depth: one more / one fewer level
			mk("array_depth_more", true, b0.id, func(s c7site, b *c7bind) bool {
				tp := target(b)
				if tp == nil || (*tp).k == 'r' || !c7depthSafe(*tp) {
					return false
				}
				if t.base == "map" && t.arr == 0 && t.mp == 0 {
					return false
				}
				*tp = &c7ex{k: 'a', items: []*c7ex{*tp}}
				return true
			})
			if t.arr > 0 {
				mk("array_depth_less", true, b0.id, func(s c7site, b *c7bind) bool {
					tp := target(b)
					if tp == nil || (*tp).k != 'a' || len((*tp).items) == 0 || (*tp).items[0].k == 'r' ||
						!c7depthSafe((*tp).items[0]) || c7usesSelf(*tp) {
						return false
					}
					*tp = (*tp).items[0]
					return true
				})
				// 3. array versus map
				mk("array_vs_map", true, b0.id, func(s c7site, b *c7bind) bool {
					tp := target(b)
					if tp == nil || (*tp).k != 'a' {
						return false
					}
					e := &c7ex{k: 'm'}
					for i, x := range (*tp).items {
						e.keys = append(e.keys, fmt.Sprintf("k%d", i+1))
						e.items = append(e.items, x)
					}
					*tp = e
					return true
				})
			}
			if t.mp > 0 && t.arr == 0 {
				mk("map_vs_array", true, b0.id, func(s c7site, b *c7bind) bool {
					tp := target(b)
					if tp == nil || (*tp).k != 'm' {
						return false
					}
					*tp = &c7ex{k: 'a', items: (*tp).items}
					return true
				})
			}
			if t.mp > 0 && t.arr == 0 {
				mk("struct_literal_for_map", true, b0.id, func(s c7site, b *c7bind) bool {
					tp := target(b)
					if tp == nil || (*tp).k != 'm' || len((*tp).items) == 0 {
						return false
					}
					(*tp).k = 'o'
					return true
				})
			}
			// any other reference of the pipeline in place of the expression:
			// well typed or not, the model decides (correspondence only)
			if s0.pl != nil {
				ci := len(s0.pl.calls)
				for j, c := range s0.pl.calls {
					if c == s0.c {
						ci = j
					}
				}
				var refs []string
				for _, r := range s0.pl.allRefs {
					if r.idx < ci {
						refs = append(refs, r.text)
					}
				}
				for n := 0; n < 2 && len(refs) > 0; n++ {
					ref := hx.Pick(g.r, refs)
					mk("near_miss_ref", false, b0.id, func(s c7site, b *c7bind) bool {
						tp := target(b)
						if b.e.k == 'p' && g.r.Bool() {
							tp = &b.e.inner
						}
						if tp == nil || c7usesSelf(*tp) {
							return false
						}
						*tp = &c7ex{k: 'r', text: ref}
						return true
					})
				}
			}
			// a reference to a new pipeline input whose type differs from the
			// parameter's in exactly one dimension (outer array depth, array
			// depth of a typed map's values, array versus typed map): never
			// convertible, whatever the base type
			if s0.pl != nil {
				for _, sh := range c7shifts {
					sh := sh
					st, ok := sh.f(t)
					if !ok {
						continue
					}
					mk(sh.class, true, b0.id, func(s c7site, b *c7bind) bool {
						it := st
						if b.e.k == 'p' {
							if s.c == nil {
								return false
							}
							lt, ok := c7lift(st, s.c.mode)
							if !ok {
								return false
							}
							it = lt
						} else if c7usesSelf(b.e) {
							return false
						}
						name := "i_shift"
						s.pl.ins = append(s.pl.ins, c7field{name, it})
						ref := &c7ex{k: 'r', text: "self." + name}
						if b.e.k == 'p' {
							if c7usesSelf(b.e.inner) {
								return false
							}
							b.e.inner = ref
						} else {
							b.e = ref
						}
						g.bindNewInput(s.pl.name, name, &c7ex{k: 'n', text: "null"}, s)
						return true
					})
				}
			}
			// 4. unknown parameter
			mk("unknown_param", true, b0.id+"_nope", func(s c7site, b *c7bind) bool {
				b.id += "_nope"
				return true
			})
			// 5. missing parameter
			{
				q := p.clone()
				s := g.sites(q)[si]
				bs := *s.binds
				hasStar := false
				for _, b := range bs {
					if b.id == "*" {
						hasStar = true
					}
				}
				nsp := 0
				for _, b := range bs {
					if b.e.k == 'p' {
						nsp++
					}
				}
				if !hasStar && !(split && nsp == 1) && !c7usesSelf(bs[bi].e) {
					*s.binds = append(append([]c7bind{}, bs[:bi]...), bs[bi+1:]...)
					out = append(out, c7mut{"missing_param", true, s.pid, s.call, "", q})
				}
			}
			// duplicate binding
			mk("duplicate_binding", true, b0.id, func(s c7site, b *c7bind) bool {
				if split {
					return false
				}
				*s.binds = append(*s.binds, c7bind{b.id, b.e.clone()})
				for i, x := range *s.binds {
					if x.id == "*" { // keep the wildcard last
						bs := *s.binds
						bs[i], bs[len(bs)-1] = bs[len(bs)-1], bs[i]
					}
				}
				return true
			})
			// 6. struct literal: missing / extra field
			if isStruct && t.arr == 0 && t.mp == 0 {
				mk("struct_missing_field", true, b0.id, func(s c7site, b *c7bind) bool {
					tp := target(b)
					if tp == nil || ((*tp).k != 'o' && (*tp).k != 'm') || len((*tp).items) == 0 || c7usesSelf((*tp).items[0]) {
						return false
					}
					(*tp).items = (*tp).items[1:]
					(*tp).keys = (*tp).keys[1:]
					return true
				})
				mk("struct_extra_field", true, b0.id, func(s c7site, b *c7bind) bool {
					tp := target(b)
					if tp == nil || ((*tp).k != 'o' && (*tp).k != 'm') {
						return false
					}
					(*tp).items = append((*tp).items, &c7ex{k: 'i', text: "1"})
					(*tp).keys = append((*tp).keys, "zz_extra")
					return true
				})
			}
			// 8. reference to a non-existent output / field / call / input
			mk("no_such_output", true, b0.id, func(s c7site, b *c7bind) bool {
				tp := target(b)
				if b.e.k == 'p' && b.e.inner.k == 'r' {
					tp = &b.e.inner
				}
				if tp == nil || (*tp).k != 'r' || (*tp).text == "self" {
					return false
				}
				parts := strings.Split((*tp).text, ".")
				if parts[0] == "self" && len(parts) == 2 {
					(*tp).text += ".nope" // keep the input in use
				} else if len(parts) == 1 {
					(*tp).text = parts[0] + ".nope"
				} else {
					parts[len(parts)-1] = "nope"
					(*tp).text = strings.Join(parts, ".")
				}
				return true
			})
			mk("no_such_call", true, b0.id, func(s c7site, b *c7bind) bool {
				tp := target(b)
				if b.e.k == 'p' && b.e.inner.k == 'r' {
					tp = &b.e.inner
				}
				if tp == nil || (*tp).k != 'r' || strings.HasPrefix((*tp).text, "self") {
					return false
				}
				parts := strings.Split((*tp).text, ".")
				parts[0] = "NOPE"
				(*tp).text = strings.Join(parts, ".")
				return true
			})
			// 7. inconsistent split collections
			if split && s0.c != nil {
				nsp := 0
				for _, b := range *s0.binds {
					if b.e.k == 'p' && (b.e.inner.k == 'a' || b.e.inner.k == 'm') {
						nsp++
					}
				}
				lit := b0.e.inner.k == 'a' || b0.e.inner.k == 'm'
				if lit && nsp >= 2 {
					mk("split_length", true, "", func(s c7site, b *c7bind) bool {
						in := b.e.inner
						in.items = append(in.items, in.items[0].clone())
						if in.k == 'm' {
							in.keys = append(in.keys, "k_more")
						}
						return true
					})
					if b0.e.inner.k == 'm' {
						mk("split_keys", true, "", func(s c7site, b *c7bind) bool {
							b.e.inner.keys[0] = "k_other"
							return true
						})
					}
				}
				// array versus map among the split sources of one call
				other := 0
				for _, b := range *s0.binds {
					if b.e.k == 'p' {
						other++
					}
				}
				if lit && other >= 2 {
					mk("split_array_vs_map", true, "", func(s c7site, b *c7bind) bool {
						in := b.e.inner
						if in.k == 'a' {
							in.k = 'm'
							in.keys = nil
							for i := range in.items {
								in.keys = append(in.keys, fmt.Sprintf("k%d", i+1))
							}
						} else {
							in.k = 'a'
							in.keys = nil
						}
						return true
					})
				}
				// split over something that is not a collection
				mk("split_scalar", true, b0.id, func(s c7site, b *c7bind) bool {
					if s.pl == nil || t.arr > 0 || t.mp > 0 {
						return false
					}
					name := "i_scalar"
					s.pl.ins = append(s.pl.ins, c7field{name, t})
					b.e.inner = &c7ex{k: 'r', text: "self." + name}
					// keep callers of this pipeline well formed
					g.bindNewInput(s.pl.name, name, &c7ex{k: 'n', text: "null"}, s)
					return true
				})
			}
		}
	}
	return out
}

// bindNewInput adds a binding for a newly added pipeline input to every call
// of that pipeline in the (cloned) program the site belongs to.
func (g *c7gen) bindNewInput(pipeline, name string, e *c7ex, s c7site) {
	q := s.p
	for _, pl := range q.callables {
		for _, c := range pl.calls {
			if c.callee == pipeline {
				c.binds = append([]c7bind{{name, e.clone()}}, c.binds...)
			}
		}
	}
	if q.top != nil && q.top.callee == pipeline {
		q.top.binds = append([]c7bind{{name, e.clone()}}, q.top.binds...)
	}
}

func c7sortedStats(m map[string]int) string {
	ks := make([]string, 0, len(m))
	for k := range m {
		ks = append(ks, k)
	}
	sort.Strings(ks)
	p := make([]string, len(ks))
	for i, k := range ks {
		p[i] = fmt.Sprintf("%q:%d", k, m[k])
	}
	return "{" + strings.Join(p, ",") + "}"
}

// ---------------------------------------------------------------- chains
//
// The family "dependency chains written out of order": a chain of calls in
// which each consumes the output of the previous one, some of them map calls
// (which add a dimension to their outputs that is only known once they have
// been checked), written in the pipeline in reverse, rotated or shuffled
// order, well typed or with one consumer of the wrong dimension.  The
// compiler sorts the calls before it checks them; the verdict and the place
// of the error must not depend on the order in which they were written.
func c07ChainPrograms(rng *hx.Rng, n int, stageCmd string) []string {
	var out []string
	for i := 0; i < n; i++ {
		length := 3 + rng.Intn(3)
		bad := -1
		if rng.Intn(2) == 0 {
			bad = 1 + rng.Intn(length-1)
		}
		var calls []string
		cur := ""     // reference to the previous result
		arr := false  // its type: int[] or int
		for k := 0; k < length; k++ {
			id := fmt.Sprintf("A%d", k)
			switch {
			case k == 0:
				calls = append(calls, fmt.Sprintf("    map call ADD as %s(\n        a = split [\n            1,\n            2,\n            3,\n        ],\n        b = 0,\n    )\n", id))
				cur, arr = id+".y", true
			case arr != (k == bad):
				// an array is summed (or, for the ill-typed step, a scalar is)
				calls = append(calls, fmt.Sprintf("    call SUM as %s(\n        xs = %s,\n    )\n", id, cur))
				cur, arr = id+".s", false
			case rng.Bool() || k == bad:
				calls = append(calls, fmt.Sprintf("    call ID as %s(\n        v = %s,\n    )\n", id, cur))
				cur, arr = id+".w", false
			default:
				calls = append(calls, fmt.Sprintf("    map call ADD as %s(\n        a = split [\n            4,\n            5,\n        ],\n        b = %s,\n    )\n", id, cur))
				cur, arr = id+".y", true
			}
		}
		// the order in which they are written
		order := make([]int, length)
		for k := range order {
			order[k] = k
		}
		switch rng.Intn(4) {
		case 0: // reverse
			for a, b := 0, length-1; a < b; a, b = a+1, b-1 {
				order[a], order[b] = order[b], order[a]
			}
		case 1: // rotate
			r := 1 + rng.Intn(length-1)
			for k := range order {
				order[k] = (k + r) % length
			}
		case 2: // shuffle
			for k := length - 1; k > 0; k-- {
				j := rng.Intn(k + 1)
				order[k], order[j] = order[j], order[k]
			}
		}
		rt := "int"
		if arr {
			rt = "int[]"
		}
		var b strings.Builder
		fmt.Fprintf(&b, "stage ADD(\n    in  int a,\n    in  int b,\n    out int y,\n    src comp \"%s ADD\",\n)\n\n", stageCmd)
		fmt.Fprintf(&b, "stage SUM(\n    in  int[] xs,\n    out int s,\n    src comp \"%s SUM\",\n)\n\n", stageCmd)
		fmt.Fprintf(&b, "stage ID(\n    in  int v,\n    out int w,\n    src comp \"%s ID\",\n)\n\n", stageCmd)
		fmt.Fprintf(&b, "pipeline P(\n    out %s r,\n)\n{\n", rt)
		for _, k := range order {
			b.WriteString(calls[k] + "\n")
		}
		fmt.Fprintf(&b, "    return (\n        r = %s,\n    )\n}\n\ncall P()\n", cur)
		out = append(out, b.String())
	}
	return out
}
