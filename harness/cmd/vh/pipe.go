package main

import (
	"bufio"
	"encoding/json"
	"fmt"
	"os"
	"os/exec"
	"path/filepath"
	"sort"
	"strconv"
	"strings"
	"sync"
	"syscall"
	"time"

	"verifharness/internal/hx"
	"verifharness/internal/pgen"
)

// Shared pipeline-run machinery (C01 C02 C03 C05 C06 C04 C14).

// event is one line of the stage event log.
type event struct {
	T     int64
	Kind  string // start args end fault
	ID    string // P.S.fork0.chnk1 / P.S.fork0.split / P.S.fork0.join
	Stage string
	Phase string
	Data  string
}

func readEvents(path string) []event {
	f, err := os.Open(path)
	if err != nil {
		return nil
	}
	defer f.Close()
	var evs []event
	sc := bufio.NewScanner(f)
	sc.Buffer(make([]byte, 1<<20), 1<<28)
	for sc.Scan() {
		fs := strings.Split(sc.Text(), " ")
		if len(fs) < 3 {
			continue
		}
		t, _ := strconv.ParseInt(fs[0], 10, 64)
		e := event{T: t, Kind: fs[1], ID: fs[2]}
		switch e.Kind {
		case "start", "end":
			e.Stage, e.Phase = fs[3], fs[4]
		case "args":
			e.Data = fs[3]
		case "fault":
			e.Stage, e.Phase, e.Data = fs[3], fs[4], fs[5]
		}
		evs = append(evs, e)
	}
	return evs
}

// jobKey splits a job id into call path, fork components, chunk and phase.
type jobKey struct {
	Path  []string
	Forks []string
	Chunk int    // -1 for split/join
	Phase string // split chunk join
}

func parseJobID(id string) jobKey {
	k := jobKey{Chunk: -1, Phase: "chunk"}
	for _, c := range strings.Split(id, ".") {
		switch {
		case c == "split" || c == "join":
			k.Phase = c
		case strings.HasPrefix(c, "chnk"):
			k.Chunk, _ = strconv.Atoi(c[4:])
		case strings.HasPrefix(c, "fork"):
			k.Forks = append(k.Forks, c)
		default:
			k.Path = append(k.Path, c)
		}
	}
	return k
}

type runResult struct {
	Exit     int
	Events   []event
	Outs     string // transport-encoded canonical top-level outs, "" if absent
	Stdout   string
	WallMs   int64
	TimedOut bool
}

// runMrp runs the real mrp on a program directory.
func runMrp(bindir, dir, psid string, extraArgs []string, extraEnv []string, timeout time.Duration) runResult {
	mrp := filepath.Join(bindir, "bin", "mrp")
	args := append([]string{"pipeline.mro", psid, "--localcores=8", "--localmem=8", "--disable-ui"}, extraArgs...)
	cmd := exec.Command(mrp, args...)
	cmd.Dir = dir
	cmd.Env = append(os.Environ(),
		"MROPATH="+dir,
		"VH_SPEC="+filepath.Join(dir, "spec.json"),
		"VH_EVENTS="+filepath.Join(dir, psid+".events"))
	cmd.Env = append(cmd.Env, extraEnv...)
	cmd.SysProcAttr = &syscall.SysProcAttr{Setpgid: true}
	var out strings.Builder
	cmd.Stdout = &out
	cmd.Stderr = &out
	t0 := time.Now()
	res := runResult{}
	if err := cmd.Start(); err != nil {
		res.Exit = -1
		res.Stdout = err.Error()
		return res
	}
	done := make(chan error, 1)
	go func() { done <- cmd.Wait() }()
	select {
	case err := <-done:
		if err != nil {
			if ee, ok := err.(*exec.ExitError); ok {
				res.Exit = ee.ExitCode()
			} else {
				res.Exit = -1
			}
		}
	case <-time.After(timeout):
		syscall.Kill(-cmd.Process.Pid, syscall.SIGKILL)
		<-done
		res.TimedOut = true
		res.Exit = -2
	}
	res.WallMs = time.Since(t0).Milliseconds()
	res.Stdout = out.String()
	res.Events = readEvents(filepath.Join(dir, psid+".events"))
	res.Outs = readTopOuts(dir, psid)
	return res
}

func readTopOuts(dir, psid string) string {
	entries, _ := os.ReadDir(filepath.Join(dir, psid))
	for _, e := range entries {
		if e.IsDir() && e.Name() != "journal" && e.Name() != "tmp" && e.Name() != "outs" && e.Name() != "extras" {
			b, err := os.ReadFile(filepath.Join(dir, psid, e.Name(), "fork0", "_outs"))
			if err == nil {
				if v, err := hx.ParseJSON(b); err == nil {
					return v.Canon().Enc()
				}
				return "unparseable"
			}
		}
	}
	return ""
}

// ---------------------------------------------------------------- C01 driver

func init() {
	props["c01"] = &propCmd{
		gen:    func(string, *hx.Rng) {},
		impl:   func([]string) {},
		oracle: func([]string) {},
		extra: map[string]func([]string){
			"genprogs": c01GenProgs,
			"run":      c01Run,
			"topouts":  func(a []string) { fmt.Fprintln(hx.Out, readTopOuts(a[0], a[1])) },
		},
	}
}

// vh c01 genprogs <outdir> <n> <seed> <stagecmd>
func c01GenProgs(args []string) {
	outdir, stagecmd := args[0], args[3]
	n, _ := strconv.Atoi(args[1])
	seed, _ := strconv.ParseUint(args[2], 10, 64)
	rng := hx.NewRng(seed)
	stats := map[string]int{}
	for i := 0; i < n; i++ {
		opts := pgen.WildFlat()
		mode := "mode_wild_flat"
		switch k := rng.Intn(10); {
		case os.Getenv("VH_GEN_MODE") == "wild_nested" || (os.Getenv("VH_GEN_MODE") == "" && k < 4):
			opts, mode = pgen.WildNested(), "mode_wild_nested"
		case os.Getenv("VH_GEN_MODE") == "disabled_heavy" || (os.Getenv("VH_GEN_MODE") == "" && k < 6):
			opts, mode = pgen.DisabledHeavy(), "mode_disabled_heavy"
		case k < 8:
			opts, mode = pgen.TameNested(), "mode_tame_nested"
		}
		g := pgen.NewG(rng, opts)
		var p *pgen.Program
		if gm := os.Getenv("VH_GEN_MODE"); gm == "disable_chain" || (gm == "" && rng.Intn(6) == 0) {
			// the parametric family "nested run-time disabling" (pgen/chain.go)
			var st map[string]int
			p, st = pgen.GenDisableChain(rng, stagecmd)
			for k, v := range st {
				g.Stats[k] += v
			}
			mode = "mode_disable_chain"
		} else if gm == "twin_branches" || (gm == "" && rng.Intn(8) == 0) {
			// the parametric family "one pipeline, several instances"
			var st map[string]int
			p, st = pgen.GenTwinBranches(rng, stagecmd)
			for k, v := range st {
				g.Stats[k] += v
			}
			mode = "mode_twin_branches"
		} else if gm == "nested_dynamic_merge" || (gm == "" && rng.Intn(12) == 0) {
			// the parametric family "merged output of a map call nested in a map call, both sized at run time"
			var st map[string]int
			p, st = pgen.GenNestedDynamicMerge(rng, stagecmd)
			for k, v := range st {
				g.Stats[k] += v
			}
			mode = "mode_nested_dynamic_merge"
		} else if gm == "per_fork_flags" || (gm == "" && rng.Intn(10) == 0) {
			// the parametric family "a run-time condition per fork"
			var st map[string]int
			p, st = pgen.GenPerForkFlags(rng, stagecmd)
			for k, v := range st {
				g.Stats[k] += v
			}
			mode = "mode_per_fork_flags"
		} else if gm == "preflight_nested" || (gm == "" && rng.Intn(12) == 0) {
			// the parametric family "preflight gates everything"
			var st map[string]int
			p, st = pgen.GenPreflightNested(rng, stagecmd)
			for k, v := range st {
				g.Stats[k] += v
			}
			mode = "mode_preflight_nested"
		} else {
			p = g.Gen(stagecmd)
		}
		g.Stats[mode]++
		dir := filepath.Join(outdir, fmt.Sprintf("p%04d", i))
		os.MkdirAll(dir, 0o755)
		os.WriteFile(filepath.Join(dir, "pipeline.mro"), []byte(p.Mro()), 0o644)
		sp, _ := json.Marshal(p.Spec())
		os.WriteFile(filepath.Join(dir, "spec.json"), sp, 0o644)
		prog, spec := p.Coq()
		os.WriteFile(filepath.Join(dir, "prog.v"), []byte(prog), 0o644)
		os.WriteFile(filepath.Join(dir, "specterm.v"), []byte(spec), 0o644)
		var splits []string
		for _, s := range p.Stages {
			if s.Split {
				splits = append(splits, s.Name)
			}
		}
		os.WriteFile(filepath.Join(dir, "splits.txt"), []byte(strings.Join(splits, "\n")), 0o644)
		os.WriteFile(filepath.Join(dir, "mapped_pipelines.txt"), []byte(strings.Join(p.MappedPipelinePaths(), "\n")), 0o644)
		for k, v := range g.Stats {
			stats[k] += v
		}
	}
	b, _ := json.Marshal(stats)
	fmt.Fprintln(hx.Out, string(b))
}

// obsLines renders a run as canonical observation lines:
//
//	inv <path.joined> <phase> <args>     (sorted)
//	outs <value>
func obsLines(dir string, res runResult) []string {
	splitStages := map[string]bool{}
	if b, err := os.ReadFile(filepath.Join(dir, "splits.txt")); err == nil {
		for _, s := range strings.Fields(string(b)) {
			splitStages[s] = true
		}
	}
	stageOf := map[string]string{}
	for _, e := range res.Events {
		if e.Kind == "start" {
			stageOf[e.ID] = e.Stage
		}
	}
	var lines []string
	for _, e := range res.Events {
		if e.Kind != "args" {
			continue
		}
		k := parseJobID(e.ID)
		phase := k.Phase
		if phase == "chunk" {
			if splitStages[stageOf[e.ID]] {
				phase = fmt.Sprintf("chunk%d", k.Chunk)
			} else {
				phase = "main"
			}
		}
		lines = append(lines, fmt.Sprintf("inv %s %s %s", strings.Join(k.Path, "."), phase, e.Data))
	}
	sort.Strings(lines)
	lines = append(lines, "exit "+strconv.Itoa(res.Exit))
	if res.Outs != "" {
		lines = append(lines, "outs "+res.Outs)
	}
	return lines
}

// vh c01 run <progsdir> <bindir> <parallel> [psid] [sched "<seed>:<maxms>"]
// Runs every program directory under progsdir with the real mrp and writes
// <dir>/<psid>.obs; prints one summary line per program.
func c01Run(args []string) {
	progs, bindir := args[0], args[1]
	par, _ := strconv.Atoi(args[2])
	psid := "ps"
	if len(args) > 3 {
		psid = args[3]
	}
	var env []string
	if len(args) > 4 {
		env = append(env, "VH_SCHED="+args[4])
	}
	entries, _ := os.ReadDir(progs)
	var dirs []string
	for _, e := range entries {
		if e.IsDir() {
			dirs = append(dirs, filepath.Join(progs, e.Name()))
		}
	}
	sem := make(chan struct{}, par)
	var wg sync.WaitGroup
	summaries := make([]string, len(dirs))
	for i, d := range dirs {
		wg.Add(1)
		sem <- struct{}{}
		go func(i int, d string) {
			defer wg.Done()
			defer func() { <-sem }()
			res := runMrp(bindir, d, psid, nil, env, 60*time.Second)
			lines := obsLines(d, res)
			os.WriteFile(filepath.Join(d, psid+".obs"), []byte(strings.Join(lines, "\n")+"\n"), 0o644)
			os.WriteFile(filepath.Join(d, psid+".log"), []byte(res.Stdout), 0o644)
			summaries[i] = fmt.Sprintf("%s exit=%d jobs=%d ms=%d", filepath.Base(d), res.Exit, len(lines)-1, res.WallMs)
		}(i, d)
	}
	wg.Wait()
	for _, s := range summaries {
		fmt.Fprintln(hx.Out, s)
	}
}
