package main

// Generator of MRO programs for C09: type-correct programs that use every
// optional clause and literal form of the grammar, produced as a TOKEN LIST so
// that the same program can be rendered with an arbitrary layout and with
// comments at chosen token boundaries.

import (
	"fmt"
	"strconv"
	"strings"

	"verifharness/internal/hx"
)

// a token of the generated program
type c09Tok struct {
	s     string
	elem  bool // first token of a declaration / parameter / binding / call / return / collection element
	close bool // a closing bracket
}

type c09Ty struct {
	base   string // int float string bool map path file, a filetype name, or a struct name
	arr    int
	mapDim int // 0: not a typed map; k+1: map<base[]^k>
	strct  bool
}

func (t c09Ty) String() string {
	s := t.base
	if t.mapDim > 0 {
		s = "map<" + t.base + strings.Repeat("[]", t.mapDim-1) + ">"
	}
	return s + strings.Repeat("[]", t.arr)
}

func (t c09Ty) isFileBase() bool {
	switch t.base {
	case "int", "float", "string", "bool", "map":
		return false
	}
	return !t.strct
}

type c09Param struct {
	name string
	ty   c09Ty
}

type c09Stage struct {
	name      string
	ins, outs []c09Param
}

type c09Gen struct {
	r       *hx.Rng
	toks    []c09Tok
	ftypes  []string
	structs map[string][]c09Param
	snames  []string
	stages  []c09Stage
	uniq    int
	emptyUsing bool // also write empty using () blocks on calls
	single  bool // bias collection literals towards one element per level (nested single-element forms)
	exotic  bool // use the literal forms that are recorded findings (invalid UTF-8 via \x, threads fractions)
}

func (g *c09Gen) t(ss ...string) {
	for _, s := range ss {
		g.toks = append(g.toks, c09Tok{s: s})
	}
}
func (g *c09Gen) e(s string)  { g.toks = append(g.toks, c09Tok{s: s, elem: true}) }
func (g *c09Gen) cl(s string) { g.toks = append(g.toks, c09Tok{s: s, close: true}) }
func (g *c09Gen) id(p string) string {
	g.uniq++
	return fmt.Sprintf("%s%d", p, g.uniq)
}

// ---------------------------------------------------------------- literals

var c09Ints = []string{"0", "1", "-1", "7", "42", "-0", "007", "000", "9223372036854775807", "-9223372036854775808",
	"1000000", "999999", "2147483648", "-00012", "123456789012345678"}
var c09Floats = []string{"1.5", "0.1", "-2.25", "1e5", "1E5", "1e-5", "1.5e+10", "2.5E-3", "1e21", "1e20", "1e22", "123456.0", "1000000.0",
	"100000.0", "0.000001", "0.0000001", "1.7976931348623157e308", "5e-324", "2.2250738585072014e-308", "3.0", "1.0", "0.0",
	"9007199254740993.0", "4.35", "0.30000000000000004", "1e0", "6.02214076e23", "-1e-7", "9223372036854775808.0",
	"18446744073709551616.0", "123456789012345678901234567890.0", "0.1e1", "00.5"}

func (g *c09Gen) intLit() string { return hx.Pick(g.r, c09Ints) }
func (g *c09Gen) floatLit() string {
	if g.r.Intn(4) == 0 {
		// a random double printed with full precision
		m := float64(g.r.Next()%(1<<53)) / float64(uint64(1)<<uint(g.r.Intn(60)))
		if g.r.Intn(8) == 0 {
			m *= 1e200
		}
		if g.r.Intn(8) == 0 {
			m *= 1e-250
		}
		if g.r.Bool() {
			m = -m
		}
		return strconv.FormatFloat(m, "eEg"[g.r.Intn(3)], -1, 64)
	}
	return hx.Pick(g.r, c09Floats)
}

var c09StrPieces = []string{"a", "Z", "0", " ", "_", "-", ".", "/", "#", "'", ":", ",", "{", "}", "[", "]", "=", "*", "%", "$", "`", "~",
	`\"`, `\\`, `\n`, `\t`, `\r`, `\b`, `\f`, `\a`, `\v`, `\x41`, `\x7f`, `\x01`, `\101`, `\000`, `\u00e9`, `\u2028`, `\u2029`, `\ufffd`,
	`\U0001F600`, `\u0041`, "\u00e9", "\u65e5\u672c", "\U0001F600", "\u2028", "\u2029", "\u00a0", "\ufffd", `\x00`, `\u0000`, `\177`}
var c09StrExotic = []string{`\xff`, `\x80`, `\377`, `\ud800`, `\U00110000`}

func (g *c09Gen) strLit() string {
	n := g.r.Intn(5)
	if g.r.Intn(6) == 0 {
		n = 0
	}
	var b strings.Builder
	b.WriteByte('"')
	for i := 0; i < n; i++ {
		if g.exotic && g.r.Intn(5) == 0 {
			b.WriteString(hx.Pick(g.r, c09StrExotic))
		} else {
			b.WriteString(hx.Pick(g.r, c09StrPieces))
		}
	}
	b.WriteByte('"')
	return b.String()
}

// a help / outname / special string: same alphabet
func (g *c09Gen) plainStr() string {
	ws := []string{"help", "a b", "x.txt", "out_1.bam", "é", `q\"q`, `b\\s`, "tab\\tx", "", "#nocomment", "a,b"}
	return `"` + hx.Pick(g.r, ws) + `"`
}

func (g *c09Gen) keyLit(i int) string {
	ks := []string{"k", "a b", "z", "A", "é", `q\"`, `b\\`, "0", "key.with.dots", ""}
	return `"` + hx.Pick(g.r, ks) + strconv.Itoa(i) + `"`
}

// count picks the number of elements of a collection level: uniform below n,
// or, when nested single-element forms are wanted, mostly exactly one.
func (g *c09Gen) count(n int) int {
	if g.single && g.r.Intn(3) != 0 {
		return 1
	}
	return g.r.Intn(n)
}

func (g *c09Gen) jsonVal(depth int) {
	k := g.r.Intn(8)
	if g.single && depth > 0 && g.r.Bool() {
		k = 5 + g.r.Intn(2) // a collection
	}
	switch k {
	case 0:
		g.t(g.intLit())
	case 1:
		g.t(g.floatLit())
	case 2:
		g.t(g.strLit())
	case 3:
		g.t(hx.Pick(g.r, []string{"true", "false"}))
	case 4:
		g.t("null")
	case 5:
		if depth <= 0 {
			g.t("[", "]")
			return
		}
		g.t("[")
		n := g.count(3)
		for i := 0; i < n; i++ {
			g.toks = append(g.toks, c09Tok{elem: true, s: ""}) // marker replaced below
			mark := len(g.toks) - 1
			g.jsonVal(depth - 1)
			g.fixMark(mark)
			if i+1 < n || g.r.Bool() {
				g.t(",")
			}
		}
		g.cl("]")
	default:
		if depth <= 0 {
			g.t("{", "}")
			return
		}
		g.t("{")
		n := g.count(3)
		for i := 0; i < n; i++ {
			g.e(g.keyLit(i))
			g.t(":")
			g.jsonVal(depth - 1)
			if i+1 < n || g.r.Bool() {
				g.t(",")
			}
		}
		g.cl("}")
	}
}

// fixMark removes the empty marker token at index i and flags the token that
// follows it as the start of an element.
func (g *c09Gen) fixMark(i int) {
	g.toks = append(g.toks[:i], g.toks[i+1:]...)
	if i < len(g.toks) {
		g.toks[i].elem = true
	}
}

func (g *c09Gen) elemVal(t c09Ty, depth int) {
	g.toks = append(g.toks, c09Tok{elem: true})
	mark := len(g.toks) - 1
	g.val(t, depth)
	g.fixMark(mark)
}

// val appends a literal of type t.
func (g *c09Gen) val(t c09Ty, depth int) {
	if g.r.Intn(12) == 0 && !(g.single && (t.arr > 0 || t.mapDim > 0)) {
		g.t("null")
		return
	}
	if t.arr > 0 {
		inner := t
		inner.arr--
		n := g.count(4)
		if depth <= 0 {
			n = 0
		}
		if n == 0 {
			g.t("[", "]")
			return
		}
		g.t("[")
		for i := 0; i < n; i++ {
			g.elemVal(inner, depth-1)
			if i+1 < n || g.r.Bool() {
				g.t(",")
			}
		}
		g.cl("]")
		return
	}
	if t.mapDim > 0 {
		inner := c09Ty{base: t.base, arr: t.mapDim - 1, strct: t.strct}
		n := g.count(3)
		if depth <= 0 {
			n = 0
		}
		if n == 0 {
			g.t("{", "}")
			return
		}
		g.t("{")
		for i := 0; i < n; i++ {
			g.e(g.keyLit(i))
			g.t(":")
			g.val(inner, depth-1)
			if i+1 < n || g.r.Bool() {
				g.t(",")
			}
		}
		g.cl("}")
		return
	}
	if t.strct {
		fs := g.structs[t.base]
		g.t("{")
		for i, f := range fs {
			g.e(f.name)
			g.t(":")
			g.val(f.ty, depth-1)
			if i+1 < len(fs) || g.r.Bool() {
				g.t(",")
			}
		}
		g.cl("}")
		return
	}
	switch t.base {
	case "int":
		g.t(g.intLit())
	case "float":
		if g.r.Intn(4) == 0 {
			g.t(g.intLit())
		} else {
			g.t(g.floatLit())
		}
	case "bool":
		g.t(hx.Pick(g.r, []string{"true", "false"}))
	case "map":
		if depth <= 0 || g.r.Intn(3) == 0 {
			g.t("{", "}")
			return
		}
		g.t("{")
		n := 1 + g.r.Intn(2)
		if g.single && g.r.Bool() {
			n = 1
		}
		for i := 0; i < n; i++ {
			g.e(g.keyLit(i))
			g.t(":")
			g.jsonVal(depth - 1)
			if i+1 < n || g.r.Bool() {
				g.t(",")
			}
		}
		g.cl("}")
	default: // string, path, file, user file types
		g.t(g.strLit())
	}
}

// ---------------------------------------------------------------- types

func (g *c09Gen) randTy() c09Ty {
	bases := []string{"int", "float", "string", "bool", "map", "path", "file", "int", "string"}
	var t c09Ty
	switch k := g.r.Intn(12); {
	case k < 8:
		t.base = hx.Pick(g.r, bases)
	case k < 10 && len(g.ftypes) > 0:
		t.base = hx.Pick(g.r, g.ftypes)
	case len(g.snames) > 0:
		t.base = hx.Pick(g.r, g.snames)
		t.strct = true
	default:
		t.base = "int"
	}
	switch g.r.Intn(8) {
	case 0:
		t.arr = 1
	case 1:
		t.arr = 2
	case 2:
		if t.base != "map" {
			t.mapDim = 1
		}
	case 3:
		if t.base != "map" {
			t.mapDim = 2
		}
	case 4:
		if t.base != "map" {
			t.mapDim = 1
			t.arr = 1
		}
	}
	return t
}

// tyToks appends the tokens of a type (map < T [ ] > [ ]).
func (g *c09Gen) tyToks(t c09Ty, first bool) {
	add := func(s string) {
		if first {
			g.e(s)
			first = false
		} else {
			g.t(s)
		}
	}
	bt := strings.Split(t.base, ".")
	base := func() {
		for i, p := range bt {
			if i > 0 {
				add(".")
			}
			add(p)
		}
	}
	if t.mapDim > 0 {
		add("map")
		add("<")
		base()
		for i := 1; i < t.mapDim; i++ {
			add("[")
			add("]")
		}
		add(">")
	} else {
		base()
	}
	for i := 0; i < t.arr; i++ {
		add("[")
		add("]")
	}
}

// ---------------------------------------------------------------- declarations

func (g *c09Gen) params(mode string, ps []c09Param, outs bool) {
	for _, p := range ps {
		g.e(mode)
		g.tyToks(p.ty, false)
		if p.name != "default" {
			g.t(p.name)
		}
		switch g.r.Intn(4) {
		case 0:
			g.t(g.plainStr())
		case 1:
			if outs {
				g.t(g.plainStr(), g.plainStr())
			}
		}
		g.t(",")
	}
}

func (g *c09Gen) declStruct() {
	name := strings.ToUpper(g.id("St"))
	n := 1 + g.r.Intn(3)
	var fs []c09Param
	g.e("struct")
	g.t(name, "(")
	for i := 0; i < n; i++ {
		ty := g.randTy()
		f := c09Param{g.id("f"), ty}
		fs = append(fs, f)
		g.tyToks(ty, true)
		g.t(f.name)
		switch g.r.Intn(4) {
		case 0:
			g.t(g.plainStr())
		case 1:
			g.t(g.plainStr(), g.plainStr())
		}
		g.t(",")
	}
	g.cl(")")
	g.structs[name] = fs
	g.snames = append(g.snames, name)
}

var c09Keywordish = []string{"local", "threads", "retain", "split", "using", "special", "strict", "volatile", "mem_gb", "exec", "comp", "struct", "filetype", "disabled", "preflight", "vmem_gb"}

func (g *c09Gen) paramName(p string) string {
	if g.r.Intn(10) == 0 {
		// keywords that the grammar also accepts as identifiers
		g.uniq++
		return hx.Pick(g.r, c09Keywordish) + "_" + strconv.Itoa(g.uniq)
	}
	return g.id(p)
}

func (g *c09Gen) declStage(preflight bool) c09Stage {
	st := c09Stage{name: strings.ToUpper(g.id("Stage_"))}
	ni := 1 + g.r.Intn(3)
	for i := 0; i < ni; i++ {
		st.ins = append(st.ins, c09Param{g.paramName("in"), g.randTy()})
	}
	no := 1 + g.r.Intn(3)
	if preflight {
		no = 0
	}
	for i := 0; i < no; i++ {
		st.outs = append(st.outs, c09Param{g.paramName("out"), g.randTy()})
	}
	if no > 0 && g.r.Intn(6) == 0 {
		st.outs[0].name = "default"
	}
	g.e("stage")
	g.t(st.name, "(")
	g.params("in", st.ins, false)
	g.params("out", st.outs, true)
	g.e("src")
	switch g.r.Intn(4) {
	case 0:
		g.t("py", `"stages/`+strings.ToLower(st.name)+`"`)
	case 1:
		g.t("exec", `"bin/run `+strings.ToLower(st.name)+`  --flag=1"`)
	case 2:
		g.t("comp", `" bin/tool stage `+strings.ToLower(st.name)+` "`)
	default:
		g.t("py", `"a-b_c.d/e+f"`)
	}
	g.t(",")
	g.cl(")")
	if g.r.Intn(3) == 0 {
		g.t("split")
		if g.r.Bool() {
			g.t("using")
		}
		g.t("(")
		g.params("in", []c09Param{{g.id("chunk_in"), g.randTy()}}, false)
		if g.r.Bool() {
			g.params("out", []c09Param{{g.id("chunk_out"), g.randTy()}}, true)
		}
		g.cl(")")
	}
	if g.r.Intn(2) == 0 {
		g.t("using", "(")
		used := map[int]bool{}
		n := 1 + g.r.Intn(4)
		for i := 0; i < n; i++ {
			k := g.r.Intn(5)
			if used[k] {
				continue
			}
			used[k] = true
			switch k {
			case 0:
				g.e("mem_gb")
				g.t("=", g.memLit(), ",")
			case 1:
				g.e("threads")
				g.t("=", g.threadLit(), ",")
			case 2:
				g.e("vmem_gb")
				g.t("=", g.memLit(), ",")
			case 3:
				g.e("special")
				g.t("=", g.plainStr(), ",")
			default:
				g.e("volatile")
				g.t("=", hx.Pick(g.r, []string{"strict", "false"}), ",")
			}
		}
		g.cl(")")
	}
	if g.r.Intn(3) == 0 {
		var fouts []string
		for _, o := range st.outs {
			if o.ty.isFileBase() {
				fouts = append(fouts, o.name)
			}
		}
		g.t("retain", "(")
		for _, o := range fouts {
			if g.r.Bool() {
				g.e(o)
				g.t(",")
			}
		}
		g.cl(")")
	}
	g.stages = append(g.stages, st)
	return st
}

var c09Mems = []string{"1", "2", "4", "16", "0.5", "1.5", "2.25", "0.001", "0.05", "0.624", "0.625", "0.626", "10.2", "2000.1", "0",
	"-1", "-2.5", "1e2", "0.0009765625", "0.0001", "3.999", "1023.999", "64", "7.3", "100", "0.125", "12.0625", "1.0e0", "4096.1", "8191.75"}
var c09MemsExotic = []string{"8192.3", "10000.3", "16384.7", "1e30", "3e9", "1e15", "9007199254740992.0", "100000.001", "-20000.1"}
var c09Threads = []string{"1", "2", "4", "16", "0.5", "1.5", "0.25", "8", "0", "-1", "100", "0.75", "32", "1e2", "3.0", "0.125"}
var c09ThreadsExotic = []string{"0.07", "0.065", "0.1", "0.3", "2.2", "1.15", "0.001", "1e10", "16777217", "0.29", "0.57"}

func (g *c09Gen) memLit() string {
	if g.exotic && g.r.Intn(3) == 0 {
		return hx.Pick(g.r, c09MemsExotic)
	}
	return hx.Pick(g.r, c09Mems)
}
func (g *c09Gen) threadLit() string {
	if g.exotic && g.r.Intn(3) == 0 {
		return hx.Pick(g.r, c09ThreadsExotic)
	}
	return hx.Pick(g.r, c09Threads)
}

// ---------------------------------------------------------------- pipelines

type c09Src struct {
	ref  string // token text of the reference, dotted parts joined by " . "
	ty   c09Ty
	call int // index of the producing call, -1 for self
}

type c09Pipe struct {
	name      string
	ins, outs []c09Param
}

func c09SameTy(a, b c09Ty) bool { return a == b }

// declPipeline appends a pipeline that calls the given stages; returns its
// signature.
func (g *c09Gen) declPipeline(stages []c09Stage, sub *c09Pipe) c09Pipe {
	p := c09Pipe{name: strings.ToUpper(g.id("Pipe_"))}
	type callPlan struct {
		st                          c09Stage
		id                          string
		binds                       [][]c09Tok
		deps                        []int
		local, preflight, volatile_ bool
		boundMods                   bool
		disabled                    string
		mapped                      bool
		isPipe                      bool
	}
	var plans []*callPlan
	var srcs []c09Src
	selfFor := func(t c09Ty) string {
		for _, in := range p.ins {
			if c09SameTy(in.ty, t) && g.r.Intn(3) != 0 {
				return in.name
			}
		}
		n := g.paramName("pin")
		p.ins = append(p.ins, c09Param{n, t})
		return n
	}
	callables := append([]c09Stage{}, stages...)
	if sub != nil {
		callables = append(callables, c09Stage{name: sub.name, ins: sub.ins, outs: sub.outs})
	}
	nc := 1 + g.r.Intn(4)
	for ci := 0; ci < nc; ci++ {
		st := hx.Pick(g.r, callables)
		pl := &callPlan{st: st, id: st.name, isPipe: sub != nil && st.name == sub.name}
		for _, q := range plans {
			if q.id == pl.id {
				pl.id = st.name + "_" + strconv.Itoa(ci)
			}
		}
		isPre := len(st.outs) == 0 && !pl.isPipe
		if !pl.isPipe {
			pl.local = g.r.Intn(4) == 0
			pl.volatile_ = g.r.Intn(4) == 0
			pl.preflight = isPre && g.r.Bool()
			pl.boundMods = g.r.Bool()
		}
		if g.r.Intn(4) == 0 && !pl.preflight {
			pl.disabled = "self . " + selfFor(c09Ty{base: "bool"})
			pl.boundMods = true
		}
		// one mapped call at most per pipeline, over an array input
		mapIdx := -1
		if !pl.preflight && g.r.Intn(4) == 0 {
			for i, in := range st.ins {
				if in.ty.arr == 0 && in.ty.mapDim == 0 {
					mapIdx = i
					break
				}
			}
			pl.mapped = mapIdx >= 0
		}
		for i, in := range st.ins {
			mark := len(g.toks)
			g.e(in.name)
			g.t("=")
			if i == mapIdx {
				g.t("split")
				at := in.ty
				at.arr = 1
				if g.r.Bool() {
					g.t("self", ".", selfFor(at))
				} else {
					save := g.r
					_ = save
					// a non-empty literal array
					g.t("[")
					n := 1 + g.r.Intn(2)
					for k := 0; k < n; k++ {
						one := in.ty
						g.toks = append(g.toks, c09Tok{elem: true})
						m2 := len(g.toks) - 1
						g.valNonNull(one, 1)
						g.fixMark(m2)
						g.t(",")
					}
					g.cl("]")
				}
			} else {
				// candidates: outputs of earlier calls with the same type
				var cands []c09Src
				if !pl.preflight {
					for _, s := range srcs {
						if c09SameTy(s.ty, in.ty) {
							cands = append(cands, s)
						}
					}
				}
				switch k := g.r.Intn(5); {
				case k < 2 && len(cands) > 0:
					s := hx.Pick(g.r, cands)
					g.t(strings.Split(s.ref, " ")...)
					pl.deps = append(pl.deps, s.call)
				case k < 4:
					g.t("self", ".", selfFor(in.ty))
				default:
					g.val(in.ty, 2)
				}
			}
			g.t(",")
			pl.binds = append(pl.binds, append([]c09Tok{}, g.toks[mark:]...))
			g.toks = g.toks[:mark]
		}
		if !pl.mapped && !pl.preflight {
			for _, o := range st.outs {
				srcs = append(srcs, c09Src{ref: pl.id + " . " + o.name, ty: o.ty, call: ci})
				if o.ty.strct && o.ty.arr == 0 && o.ty.mapDim == 0 {
					for _, f := range g.structs[o.ty.base] {
						srcs = append(srcs, c09Src{ref: pl.id + " . " + o.name + " . " + f.name, ty: f.ty, call: ci})
					}
				}
			}
		}
		plans = append(plans, pl)
	}
	// pipeline outputs
	no := 1 + g.r.Intn(3)
	type retPlan struct {
		name string
		toks []string
	}
	var rets []retPlan
	for i := 0; i < no; i++ {
		name := g.paramName("pout")
		if len(srcs) > 0 && g.r.Intn(4) != 0 {
			s := hx.Pick(g.r, srcs)
			p.outs = append(p.outs, c09Param{name, s.ty})
			rets = append(rets, retPlan{name, strings.Split(s.ref, " ")})
		} else {
			t := g.randTy()
			p.outs = append(p.outs, c09Param{name, t})
			rets = append(rets, retPlan{name, []string{"self", ".", selfFor(t)}})
		}
	}
	if len(p.ins) == 0 {
		// keep at least one input, used by a return binding
		t := c09Ty{base: "int"}
		n := selfFor(t)
		name := g.paramName("pout")
		p.outs = append(p.outs, c09Param{name, t})
		rets = append(rets, retPlan{name, []string{"self", ".", n}})
	}
	// emit
	g.e("pipeline")
	g.t(p.name, "(")
	g.params("in", p.ins, false)
	g.params("out", p.outs, true)
	g.cl(")")
	g.t("{")
	// source order of calls: a random permutation (the formatter sorts them)
	order := make([]int, len(plans))
	for i := range order {
		order[i] = i
	}
	if g.r.Intn(3) != 0 {
		for i := len(order) - 1; i > 0; i-- {
			j := g.r.Intn(i + 1)
			order[i], order[j] = order[j], order[i]
		}
	}
	for _, ci := range order {
		pl := plans[ci]
		if pl.mapped {
			g.e("map")
			g.t("call")
		} else {
			g.e("call")
		}
		if !pl.boundMods {
			if pl.local {
				g.t("local")
			}
			if pl.preflight {
				g.t("preflight")
			}
			if pl.volatile_ {
				g.t("volatile")
			}
		}
		g.t(pl.st.name)
		if pl.id != pl.st.name {
			g.t("as", pl.id)
		}
		g.t("(")
		for _, b := range pl.binds {
			g.toks = append(g.toks, b...)
		}
		g.cl(")")
		if pl.boundMods && (pl.local || pl.preflight || pl.volatile_ || pl.disabled != "" || (g.emptyUsing && g.r.Intn(3) == 0)) {
			g.t("using", "(")
			type mb struct{ k, v string }
			var ms []mb
			if pl.local || (!g.emptyUsing && g.r.Intn(6) == 0) {
				ms = append(ms, mb{"local", strconv.FormatBool(pl.local)})
			}
			if pl.preflight {
				ms = append(ms, mb{"preflight", "true"})
			}
			if pl.volatile_ || (!g.emptyUsing && g.r.Intn(6) == 0) {
				ms = append(ms, mb{"volatile", strconv.FormatBool(pl.volatile_)})
			}
			if pl.disabled != "" {
				ms = append(ms, mb{"disabled", pl.disabled})
			}
			for i := len(ms) - 1; i > 0; i-- {
				j := g.r.Intn(i + 1)
				ms[i], ms[j] = ms[j], ms[i]
			}
			for _, m := range ms {
				g.e(m.k)
				g.t("=")
				g.t(strings.Split(m.v, " ")...)
				g.t(",")
			}
			g.cl(")")
		}
	}
	g.e("return")
	g.t("(")
	for _, r := range rets {
		g.e(r.name)
		g.t("=")
		g.t(r.toks...)
		g.t(",")
	}
	g.cl(")")
	if g.r.Intn(3) == 0 {
		g.t("retain", "(")
		for _, s := range srcs {
			if s.ty.isFileBase() && g.r.Bool() {
				g.t(strings.Split(s.ref, " ")...)
				g.t(",")
			}
		}
		g.cl(")")
	}
	g.cl("}")
	return p
}

func (g *c09Gen) valNonNull(t c09Ty, depth int) {
	for {
		mark := len(g.toks)
		g.val(t, depth)
		if len(g.toks) == mark+1 && g.toks[mark].s == "null" {
			g.toks = g.toks[:mark]
			continue
		}
		return
	}
}

// deepTy is a type with several collection levels: T[]^a, map<T[]^k>[]^a.
func (g *c09Gen) deepTy() c09Ty {
	t := c09Ty{base: hx.Pick(g.r, []string{"int", "string", "map", "float", "bool", "int", "file"})}
	if len(g.snames) > 0 && g.r.Intn(4) == 0 {
		t.base = hx.Pick(g.r, g.snames)
		t.strct = true
	}
	t.arr = g.r.Intn(4)
	if t.base != "map" && g.r.Intn(3) == 0 {
		t.mapDim = 1 + g.r.Intn(3)
	}
	if t.arr == 0 && t.mapDim == 0 && t.base != "map" {
		t.arr = 2
	}
	return t
}

// literalProgram appends a small program whose bindings are deeply nested
// collection literals (arrays in arrays in maps ..., many levels with exactly
// one element): either a top-level call of a stage, or a call in a pipeline.
func (g *c09Gen) literalProgram() {
	g.structs = map[string][]c09Param{}
	g.single = true
	if g.r.Intn(3) == 0 {
		g.declStruct()
	}
	st := c09Stage{name: strings.ToUpper(g.id("Stage_"))}
	ni := 1 + g.r.Intn(3)
	for i := 0; i < ni; i++ {
		st.ins = append(st.ins, c09Param{g.id("in"), g.deepTy()})
	}
	g.e("stage")
	g.t(st.name, "(")
	g.params("in", st.ins, false)
	g.e("src")
	g.t("py", `"stages/lit"`, ",")
	g.cl(")")
	inPipe := g.r.Bool()
	if inPipe {
		g.e("pipeline")
		g.t("P", "(", ")", "{")
	}
	g.e("call")
	g.t(st.name, "(")
	for _, in := range st.ins {
		g.e(in.name)
		g.t("=")
		g.val(in.ty, 5)
		g.t(",")
	}
	g.cl(")")
	if inPipe {
		g.e("return")
		g.t("(")
		g.cl(")")
		g.cl("}")
	}
}

// program appends a whole program; withCall: ends with a top-level call.
func (g *c09Gen) program(withCall bool) {
	g.structs = map[string][]c09Param{}
	nf := g.r.Intn(3)
	for i := 0; i < nf; i++ {
		n := g.id("ft")
		if g.r.Intn(3) == 0 {
			n += ".gz"
		}
		g.ftypes = append(g.ftypes, n)
		g.e("filetype")
		g.t(strings.Split(strings.ReplaceAll(n, ".", " . "), " ")...)
		g.t(";")
	}
	ns := g.r.Intn(3)
	for i := 0; i < ns; i++ {
		g.declStruct()
	}
	nst := 1 + g.r.Intn(3)
	var sts []c09Stage
	for i := 0; i < nst; i++ {
		sts = append(sts, g.declStage(g.r.Intn(6) == 0))
	}
	p1 := g.declPipeline(sts, nil)
	top := p1
	if g.r.Intn(3) == 0 {
		top = g.declPipeline(sts, &p1)
	}
	if withCall {
		g.e("call")
		g.t(top.name, "(")
		for _, in := range top.ins {
			g.e(in.name)
			g.t("=")
			g.val(in.ty, 3)
			g.t(",")
		}
		g.cl(")")
	}
}

// ---------------------------------------------------------------- rendering

// render lays the tokens out.  style 0: one space / newline at random between
// any two tokens; style 1: every element on its own line (a tidy program).
// comments[i] (if any) is the text of a comment line placed before token i.
func c09Render(r *hx.Rng, toks []c09Tok, style int, comments map[int][]string) string {
	var b strings.Builder
	depth := 0
	for i, t := range toks {
		if (t.s == ")" || t.s == "]" || t.s == "}") && depth > 0 {
			depth--
		}
		cs := comments[i]
		if i > 0 {
			nl := false
			switch style {
			case 0:
				nl = r.Intn(3) == 0
			default:
				nl = t.elem || t.close
			}
			if len(cs) > 0 {
				// the comment either trails the previous token's line or
				// stands on lines of its own
				for k, c := range cs {
					if k == 0 && r.Intn(3) == 0 {
						b.WriteString(" ")
					} else {
						b.WriteString("\n")
						if r.Intn(4) == 0 {
							b.WriteString("\n")
						}
						b.WriteString(strings.Repeat("    ", depth))
					}
					b.WriteString(c)
				}
				b.WriteString("\n")
				if r.Intn(5) == 0 {
					b.WriteString("\n")
				}
				b.WriteString(strings.Repeat("    ", depth))
			} else if nl {
				b.WriteString("\n")
				if style == 0 && r.Intn(6) == 0 {
					b.WriteString("\n")
				}
				b.WriteString(strings.Repeat("    ", depth))
			} else {
				b.WriteString(" ")
			}
		} else {
			for _, c := range cs {
				b.WriteString(c)
				b.WriteString("\n")
			}
		}
		b.WriteString(t.s)
		switch t.s {
		case "(", "[", "{":
			depth++
		}
	}
	b.WriteString("\n")
	return b.String()
}
