// C16 - MRO call text <-> invocation JSON.
//
// Case lines (fields separated by one space):
//
//	v <wf> <lk> <file> <mro> <inv> <ast> <known> <call> <incl> <args> <split> <ftab>
//
//	wf     1: the argument values have the declared types, split arguments
//	       are consistent non-empty collections (the property's quantifier);
//	       0: malformed stream (only model/implementation correspondence)
//	lk     c: the TypeLookup of the compiled include file;
//	       b: syntax.NewTypeLookup() (builtin types only, as in
//	       ExampleBuildCallSource) - only for wf=0
//	file   name of the include file (hex), mro its text (hex)
//	inv    the invocation JSON text (hex) given to the implementation
//	the rest is what the model reads (derived here from the same data by the
//	implementation's own compiler and by encoding/json + strconv):
//	ast    astdump transport of the compiled include file
//	known  names of the non-struct base types of the lookup (hex, comma-sep.)
//	call, incl, args (JV transport, object in source order), split (hex list)
//	ftab   float tables: P:m:e:m2:e2 (strconv.ParseFloat of the literal
//	       m*10^e is m2*2^e2) and F:m2:e2:m:e (AppendFloat 'g' -1 of the
//	       float, read as a literal), comma separated, - if empty
package main

import (
	"bytes"
	"encoding/json"
	"fmt"
	"math"
	"math/big"
	"os"
	"path/filepath"
	"sort"
	"strconv"
	"strings"

	"verifharness/internal/astdump"
	"verifharness/internal/hx"

	"github.com/martian-lang/martian/martian/core"
	"github.com/martian-lang/martian/martian/syntax"
)

func init() {
	props["c16"] = &propCmd{gen: c16Gen, impl: c16Impl, oracle: c16Oracle,
		extra: map[string]func([]string){"e2e": c16E2E}}
}

// ------------------------------------------------------------------ numbers

// c16Lit reads a JSON/MRO number literal in the model's convention: integer
// syntax is (z, 0); float syntax is (m, e) with e != 0.
func c16Lit(s string) (*big.Int, int64, bool) {
	if !strings.ContainsAny(s, ".eE") {
		m, ok := new(big.Int).SetString(s, 10)
		if !ok {
			panic("c16: bad integer literal " + s)
		}
		return m, 0, false
	}
	jv, err := hx.ParseNumber(s)
	if err != nil {
		panic("c16: bad float literal " + s)
	}
	m, e := jv.M, jv.E
	if e == 0 {
		m = new(big.Int).Mul(m, big.NewInt(10))
		e = -1
	}
	return m, e, true
}

// c16Decode decodes JSON text to a JV that keeps the syntax class of numbers
// (see c16Lit) and collects the float-syntax literals.
func c16Decode(b []byte, floats *[]string) (hx.JV, error) {
	dec := json.NewDecoder(bytes.NewReader(b))
	dec.UseNumber()
	v, err := c16DecodeV(dec, floats)
	if err != nil {
		return hx.JV{}, err
	}
	if dec.More() {
		return hx.JV{}, fmt.Errorf("trailing data")
	}
	return v, nil
}

func c16DecodeV(dec *json.Decoder, floats *[]string) (hx.JV, error) {
	tok, err := dec.Token()
	if err != nil {
		return hx.JV{}, err
	}
	switch t := tok.(type) {
	case nil:
		return hx.JNull(), nil
	case bool:
		return hx.JBool(t), nil
	case json.Number:
		m, e, isf := c16Lit(string(t))
		if isf && floats != nil {
			*floats = append(*floats, string(t))
		}
		return hx.JV{K: '#', M: m, E: e}, nil
	case string:
		return hx.JStr(t), nil
	case json.Delim:
		switch t {
		case '[':
			a := []hx.JV{}
			for dec.More() {
				v, err := c16DecodeV(dec, floats)
				if err != nil {
					return hx.JV{}, err
				}
				a = append(a, v)
			}
			if _, err := dec.Token(); err != nil {
				return hx.JV{}, err
			}
			return hx.JArr(a), nil
		case '{':
			o := []hx.JKV{}
			for dec.More() {
				kt, err := dec.Token()
				if err != nil {
					return hx.JV{}, err
				}
				v, err := c16DecodeV(dec, floats)
				if err != nil {
					return hx.JV{}, err
				}
				o = append(o, hx.JKV{Key: kt.(string), Val: v})
			}
			if _, err := dec.Token(); err != nil {
				return hx.JV{}, err
			}
			return hx.JObj(o), nil
		}
	}
	return hx.JV{}, fmt.Errorf("unexpected token %v", tok)
}

// c16FloatTable: the instantiation of the model's fparse / fprint on the
// float literals of a case, computed by strconv.
func c16FloatTable(lits []string) string {
	seen := map[string]bool{}
	var out []string
	add := func(s string) {
		if !seen[s] {
			seen[s] = true
			out = append(out, s)
		}
	}
	for _, lit := range lits {
		for round := 0; round < 2; round++ {
			m, e, isf := c16Lit(lit)
			if !isf {
				break
			}
			x, err := strconv.ParseFloat(lit, 64)
			if err != nil {
				break
			}
			m2, e2 := astdump.Dyadic(x)
			add(fmt.Sprintf("P:%s:%d:%s:%d", m, e, m2, e2))
			printed := strconv.FormatFloat(x, 'g', -1, 64)
			pm, pe, _ := c16Lit(printed)
			add(fmt.Sprintf("F:%s:%d:%s:%d", m2, e2, pm, pe))
			lit = printed
		}
	}
	if len(out) == 0 {
		return "-"
	}
	return strings.Join(out, ",")
}

// ------------------------------------------------------------------ signatures

type c16Type struct {
	base    string
	arr, mp int // mp = 0: not a typed map; k+1: map<base[]^k>; arr: arrays around it
}

func (t c16Type) String() string {
	s := t.base
	if t.mp > 0 {
		s = "map<" + s + strings.Repeat("[]", t.mp-1) + ">"
	}
	return s + strings.Repeat("[]", t.arr)
}

type c16Member struct {
	id string
	t  c16Type
}

type c16Struct struct {
	name    string
	members []c16Member
}

type c16Sig struct {
	file      string
	name      string
	filetypes []string
	structs   []c16Struct
	params    []c16Member
}

func (s *c16Sig) structByName(n string) *c16Struct {
	for i := range s.structs {
		if s.structs[i].name == n {
			return &s.structs[i]
		}
	}
	return nil
}

func (s *c16Sig) mro() string {
	var b strings.Builder
	for _, f := range s.filetypes {
		fmt.Fprintf(&b, "filetype %s;\n", f)
	}
	for _, st := range s.structs {
		fmt.Fprintf(&b, "\nstruct %s(\n", st.name)
		for _, m := range st.members {
			fmt.Fprintf(&b, "    %s %s,\n", m.t, m.id)
		}
		b.WriteString(")\n")
	}
	fmt.Fprintf(&b, "\nstage %s(\n", s.name)
	for _, p := range s.params {
		fmt.Fprintf(&b, "    in  %s %s,\n", p.t, p.id)
	}
	b.WriteString("    out int result_,\n    src comp \"stagecode\",\n)\n")
	return b.String()
}

var c16Idents = []string{"a", "b", "c", "x1", "foo_bar", "value", "Key", "n0", "items", "cfg", "zz", "m_", "lanes", "sample_id", "q"}

func c16GenType(r *hx.Rng, sig *c16Sig, nstructs int) c16Type {
	bases := []string{"int", "float", "string", "bool", "map", "path", "file"}
	var t c16Type
	k := r.Intn(10)
	switch {
	case k < 4 && nstructs > 0:
		t.base = sig.structs[r.Intn(nstructs)].name
	case k < 5 && len(sig.filetypes) > 0:
		t.base = hx.Pick(r, sig.filetypes)
	default:
		t.base = hx.Pick(r, bases)
	}
	switch r.Intn(8) {
	case 0, 1:
		t.arr = 1
	case 2:
		t.arr = 2
	case 3:
		if t.base != "map" {
			t.mp = 1
		}
	case 4:
		if t.base != "map" {
			t.mp = 2
		}
	case 5:
		if t.base != "map" {
			t.mp = 1
			t.arr = 1
		}
	}
	return t
}

func c16GenSig(r *hx.Rng, idx int) *c16Sig {
	sig := &c16Sig{file: fmt.Sprintf("sig%d.mro", idx), name: fmt.Sprintf("STAGE_%d", idx)}
	if r.Intn(3) == 0 {
		sig.file = fmt.Sprintf("sub/sig%d.mro", idx)
	}
	for i, n := 0, r.Intn(3); i < n; i++ {
		sig.filetypes = append(sig.filetypes, []string{"txt", "bam", "json"}[i])
	}
	ns := r.Intn(4)
	for i := 0; i < ns; i++ {
		st := c16Struct{name: fmt.Sprintf("S%d", i)}
		perm := c16Perm(r, len(c16Idents))
		for j, nm := 0, 1+r.Intn(4); j < nm; j++ {
			st.members = append(st.members, c16Member{c16Idents[perm[j]], c16GenType(r, sig, i)})
		}
		sig.structs = append(sig.structs, st)
	}
	perm := c16Perm(r, len(c16Idents))
	for j, np := 0, 1+r.Intn(5); j < np; j++ {
		sig.params = append(sig.params, c16Member{c16Idents[perm[j]], c16GenType(r, sig, ns)})
	}
	return sig
}

func c16Perm(r *hx.Rng, n int) []int {
	p := make([]int, n)
	for i := range p {
		p[i] = i
	}
	for i := n - 1; i > 0; i-- {
		j := r.Intn(i + 1)
		p[i], p[j] = p[j], p[i]
	}
	return p
}

// ------------------------------------------------------------------ values (JSON text)

var c16Strings = []string{"", "a", "hello world", "q\"uo\\te", "tab\there\nnl\r", "naïve café", "日本語",
	"\U0001F600 emoji \U0001F389", " sep ", "/path/to/file.txt", "a/b", "\x7f", "\x01\x1f\b\f", "{\"not\": json}",
	"split", "null", "ÿĀ߿ࠀ￿", "\U00010000\U0010ffff", "\\u0041", "'single'", "$HOME `x`", "�"}

// c16Quote writes s as a JSON string literal, choosing among the escape
// forms the JSON grammar allows (all of them decode to s).
func c16Quote(r *hx.Rng, s string, exotic bool) string {
	var b strings.Builder
	b.WriteByte('"')
	for _, c := range s {
		switch {
		case c == '"' || c == '\\':
			b.WriteByte('\\')
			b.WriteRune(c)
		case c < 0x20:
			short := map[rune]string{'\b': `\b`, '\f': `\f`, '\n': `\n`, '\r': `\r`, '\t': `\t`}
			if e, ok := short[c]; ok && r.Intn(3) > 0 {
				b.WriteString(e)
			} else {
				fmt.Fprintf(&b, `\u%04x`, c)
			}
		case c == '/' && exotic && r.Intn(2) == 0:
			b.WriteString(`\/`)
		case c >= 0x10000 && exotic && r.Intn(2) == 0:
			c -= 0x10000
			fmt.Fprintf(&b, `\u%04x\u%04x`, 0xd800+(c>>10), 0xdc00+(c&0x3ff))
		case c >= 0x80 && c < 0x10000 && r.Intn(3) == 0:
			if r.Bool() {
				fmt.Fprintf(&b, `\u%04x`, c)
			} else {
				fmt.Fprintf(&b, `\u%04X`, c)
			}
		case c < 0x80 && r.Intn(40) == 0:
			fmt.Fprintf(&b, `\u%04x`, c)
		default:
			b.WriteRune(c)
		}
	}
	b.WriteByte('"')
	return b.String()
}

func c16RandString(r *hx.Rng) string {
	if r.Intn(4) > 0 {
		return hx.Pick(r, c16Strings)
	}
	var b strings.Builder
	for i, n := 0, r.Intn(12); i < n; i++ {
		switch r.Intn(6) {
		case 0:
			b.WriteRune(rune(r.Intn(0x20)))
		case 1:
			b.WriteRune(rune(0x80 + r.Intn(0x780)))
		case 2:
			c := rune(0x800 + r.Intn(0xf800))
			if c >= 0xd800 && c < 0xe000 {
				c = 0xe000
			}
			b.WriteRune(c)
		case 3:
			b.WriteRune(rune(0x10000 + r.Intn(0x100000)))
		default:
			b.WriteRune(rune(0x20 + r.Intn(0x5f)))
		}
	}
	return b.String()
}

var c16Ints = []string{"0", "1", "-1", "7", "42", "-300", "1000000", "2147483648", "-2147483649", "9007199254740993",
	"9223372036854775807", "-9223372036854775808", "9223372036854775806", "1234567890123456789", "-0"}

func c16Int(r *hx.Rng) string {
	if r.Intn(3) == 0 {
		return strconv.FormatInt(int64(r.Next()), 10)
	}
	return hx.Pick(r, c16Ints)
}

var c16Floats = []string{"0.5", "1.5", "-2.25", "3.141592653589793", "1e+06", "1e-06", "1e+21", "1e+19", "1.7976931348623157e+308",
	"5e-324", "2.2250738585072014e-308", "0.1", "0.30000000000000004", "123456.7", "1.0", "100.0", "1000000.0", "1e2", "1E2", "2.5e+3",
	"-1.0e-3", "0.0", "123456789012345680000.0", "9.007199254740993e15", "4.35", "1e0", "12.50"}

func c16Float(r *hx.Rng) string {
	switch r.Intn(4) {
	case 0:
		// a random float64 in the shortest form strconv prints
		for {
			x := math.Float64frombits(r.Next())
			if math.IsNaN(x) || math.IsInf(x, 0) || x == 0 {
				continue
			}
			s := strconv.FormatFloat(x, 'g', -1, 64)
			if !strings.ContainsAny(s, ".e") {
				s += ".0"
			}
			return s
		}
	case 1:
		x := float64(int64(r.Next())%2000000) / float64(int(1)<<uint(r.Intn(12)))
		if x == 0 {
			return "0.25"
		}
		f := hx.Pick(r, []byte{'g', 'e', 'f'})
		s := strconv.FormatFloat(x, f, -1, 64)
		if !strings.ContainsAny(s, ".e") {
			s += ".0"
		}
		return s
	}
	return hx.Pick(r, c16Floats)
}

var c16Keys = []string{"k", "key one", "a", "b", "", "é", "x/y", "q\"", "\U0001F600", "split", "Z", "0", "k2", "a.b"}

// c16Any: an arbitrary JSON value (for the untyped map type and the
// malformed stream).
func c16Any(r *hx.Rng, depth int, exotic bool) string {
	k := r.Intn(9)
	if depth <= 0 && k >= 6 {
		k = r.Intn(6)
	}
	switch k {
	case 0:
		return "null"
	case 1:
		return hx.Pick(r, []string{"true", "false"})
	case 2:
		return c16Int(r)
	case 3:
		return c16Float(r)
	case 4, 5:
		return c16Quote(r, c16RandString(r), exotic)
	case 6:
		var parts []string
		for i, n := 0, r.Intn(4); i < n; i++ {
			parts = append(parts, c16Any(r, depth-1, exotic))
		}
		return "[" + strings.Join(parts, c16Sep(r)) + "]"
	default:
		var parts []string
		perm := c16Perm(r, len(c16Keys))
		for i, n := 0, r.Intn(4); i < n; i++ {
			parts = append(parts, c16Quote(r, c16Keys[perm[i]], exotic)+":"+c16Any(r, depth-1, exotic))
		}
		return "{" + strings.Join(parts, c16Sep(r)) + "}"
	}
}

func c16Sep(r *hx.Rng) string {
	if r.Intn(4) == 0 {
		return " ,\n\t"
	}
	return ","
}

type c16ValGen struct {
	r      *hx.Rng
	sig    *c16Sig
	wf     bool
	exotic bool // JSON string escapes \/ and surrogate pairs
}

// value of type t as JSON text
func (g *c16ValGen) value(t c16Type, depth int) string {
	r := g.r
	if !g.wf && r.Intn(12) == 0 {
		return c16Any(r, 2, g.exotic)
	}
	if r.Intn(10) == 0 {
		return "null"
	}
	if t.arr > 0 {
		et := t
		et.arr--
		n := r.Intn(4)
		if depth <= 0 {
			n = r.Intn(2)
		}
		parts := make([]string, n)
		for i := range parts {
			parts[i] = g.value(et, depth-1)
		}
		return "[" + strings.Join(parts, c16Sep(r)) + "]"
	}
	if t.mp > 0 {
		et := c16Type{base: t.base, arr: t.mp - 1}
		n := r.Intn(4)
		if depth <= 0 {
			n = r.Intn(2)
		}
		perm := c16Perm(r, len(c16Keys))
		parts := make([]string, 0, n+1)
		for i := 0; i < n; i++ {
			key := c16Keys[perm[i]]
			if g.wf && (key == "" || strings.Contains(key, "/")) {
				// keys of a typed map of files must be legal file names
				continue
			}
			parts = append(parts, c16Quote(r, key, g.exotic)+": "+g.value(et, depth-1))
		}
		if !g.wf && n > 0 && r.Intn(6) == 0 { // duplicate key: the last one wins
			parts = append(parts, c16Quote(r, c16Keys[perm[0]], false)+":"+g.value(et, depth-1))
		}
		return "{" + strings.Join(parts, c16Sep(r)) + "}"
	}
	switch t.base {
	case "int":
		if !g.wf && r.Intn(10) == 0 {
			return hx.Pick(r, []string{"9223372036854775808", "-9223372036854775809", "18446744073709551616", "123456789012345678901234"})
		}
		return c16Int(r)
	case "float":
		if r.Intn(4) == 0 {
			return hx.Pick(r, []string{"0", "1", "-5", "123456", "1000000", "9007199254740992"})
		}
		return c16Float(r)
	case "bool":
		return hx.Pick(r, []string{"true", "false"})
	case "map":
		var parts []string
		perm := c16Perm(r, len(c16Keys))
		for i, n := 0, r.Intn(4); i < n; i++ {
			parts = append(parts, c16Quote(r, c16Keys[perm[i]], g.exotic)+":"+c16Any(r, depth, g.exotic))
		}
		return "{" + strings.Join(parts, c16Sep(r)) + "}"
	}
	if st := g.sig.structByName(t.base); st != nil {
		perm := c16Perm(r, len(st.members))
		var parts []string
		for _, i := range perm {
			m := st.members[i]
			if !g.wf && r.Intn(8) == 0 {
				continue
			}
			parts = append(parts, c16Quote(r, m.id, false)+":"+g.value(m.t, depth-1))
		}
		if !g.wf && r.Intn(5) == 0 {
			parts = append(parts, c16Quote(r, hx.Pick(r, []string{"extra", "b", "x y", "9z"}), false)+":"+c16Any(r, 2, g.exotic))
		}
		return "{" + strings.Join(parts, c16Sep(r)) + "}"
	}
	// string, path, file, user file types
	return c16Quote(r, c16RandString(r), g.exotic)
}

// ------------------------------------------------------------------ cases

type c16Case struct {
	wf        bool
	lk        byte
	sig       *c16Sig
	invText   string
	splitArgs []string
}

func c16GenInvocation(r *hx.Rng, sig *c16Sig, wf, exotic bool) *c16Case {
	g := &c16ValGen{r: r, sig: sig, wf: wf, exotic: exotic}
	c := &c16Case{wf: wf, lk: 'c', sig: sig}
	// split mode: none, array of n, map over keys
	mode := r.Intn(5)
	n := 1 + r.Intn(3)
	perm := c16Perm(r, len(c16Keys))
	var args []string
	for _, p := range sig.params {
		if r.Intn(8) == 0 {
			continue // argument not given: bound to null
		}
		split := (mode == 1 || mode == 2) && r.Intn(2) == 0
		if wf && mode == 2 && p.t.mp > 0 {
			split = false // map<map<..>> is not a type: a typed map is never split over a map
		}
		if !wf && r.Intn(25) == 0 {
			// split named but the value is not a split wrapper, or the reverse
			c.splitArgs = append(c.splitArgs, p.id)
			args = append(args, c16Quote(r, p.id, false)+":"+hx.Pick(r, []string{"null", "[1,2]", `{"nosplit":[1]}`, `{"split":null}`, `{"split":[]}`, `{"split":{}}`, `{"split":3}`, `{"Split":[1]}`, g.value(p.t, 2)}))
			continue
		}
		if !split {
			args = append(args, c16Quote(r, p.id, false)+": "+g.value(p.t, 3))
			continue
		}
		c.splitArgs = append(c.splitArgs, p.id)
		var parts []string
		for i := 0; i < n; i++ {
			v := g.value(p.t, 2)
			if mode == 2 {
				key := c16Keys[perm[i]]
				if wf && (key == "" || strings.Contains(key, "/")) {
					key = fmt.Sprintf("fork %d", i)
				}
				v = c16Quote(r, key, exotic) + ":" + v
			}
			parts = append(parts, v)
		}
		coll := "[" + strings.Join(parts, ",") + "]"
		if mode == 2 {
			coll = "{" + strings.Join(parts, ",") + "}"
		}
		extra := ""
		if !wf && r.Intn(10) == 0 {
			extra = `,"source":"ignored"`
		}
		args = append(args, c16Quote(r, p.id, false)+`:{"split":`+coll+extra+`}`)
	}
	if !wf && r.Intn(10) == 0 {
		args = append(args, `"not_a_param": 5`)
	}
	if !wf && len(args) > 0 && r.Intn(12) == 0 {
		args = append(args, args[0]) // duplicate argument key
	}
	pa := c16Perm(r, len(args))
	shuffled := make([]string, len(args))
	for i, j := range pa {
		shuffled[i] = args[j]
	}
	// splitargs is a set: it is written in any order (mrp writes it in map
	// iteration order, BuildDataForAst in the order of the bindings)
	if len(c.splitArgs) > 1 {
		ps := c16Perm(r, len(c.splitArgs))
		sh := make([]string, len(c.splitArgs))
		for i, j := range ps {
			sh[i] = c.splitArgs[j]
		}
		c.splitArgs = sh
	}
	var sp []string
	for _, s := range c.splitArgs {
		sp = append(sp, c16Quote(r, s, false))
	}
	fields := []string{
		`"call":` + c16Quote(r, sig.name, false),
		`"args":{` + strings.Join(shuffled, c16Sep(r)) + `}`,
		`"mro_file":` + c16Quote(r, sig.file, false),
	}
	if len(sp) > 0 || r.Intn(4) == 0 {
		fields = append(fields, `"splitargs":[`+strings.Join(sp, ",")+`]`)
	}
	c.invText = "{" + strings.Join(fields, ",") + "}"
	if !wf && r.Intn(6) == 0 {
		c.lk = 'b'
	}
	return c
}

type c16Compiled struct {
	ast      *syntax.Ast
	callable syntax.Callable
	dump     string
}

func c16Compile(sig *c16Sig, dir string) (*c16Compiled, error) {
	full := filepath.Join(dir, sig.file)
	if err := os.MkdirAll(filepath.Dir(full), 0o755); err != nil {
		return nil, err
	}
	src := sig.mro()
	if err := os.WriteFile(full, []byte(src), 0o644); err != nil {
		return nil, err
	}
	_, _, ast, err := syntax.ParseSourceBytes([]byte(src), full, []string{dir}, false)
	if err != nil {
		return nil, err
	}
	c := ast.Callables.Table[sig.name]
	if c == nil {
		return nil, fmt.Errorf("callable %s not found", sig.name)
	}
	return &c16Compiled{ast: ast, callable: c, dump: astdump.Ast(ast).Transport()}, nil
}

// names of the non-struct base types a lookup knows
func c16Known(lookup *syntax.TypeLookup, ast *syntax.Ast) string {
	cands := []string{syntax.KindInt, syntax.KindFloat, syntax.KindString, syntax.KindBool, syntax.KindMap,
		syntax.KindPath, syntax.KindFile, syntax.KindNull, string(syntax.KindArray), syntax.KindStruct, syntax.KindSplit, syntax.KindSelf}
	if ast != nil {
		for _, u := range ast.UserTypes {
			cands = append(cands, u.Id)
		}
	}
	var out []string
	for _, n := range cands {
		t := lookup.Get(syntax.TypeId{Tname: n})
		if t == nil {
			continue
		}
		if _, ok := t.(*syntax.StructType); ok {
			continue
		}
		out = append(out, hx.H(n))
	}
	if len(out) == 0 {
		return "-"
	}
	return strings.Join(out, ",")
}

func c16HexList(ss []string) string {
	if len(ss) == 0 {
		return "-"
	}
	out := make([]string, len(ss))
	for i, s := range ss {
		out[i] = hx.H(s)
		if s == "" {
			out[i] = "_"
		}
	}
	return strings.Join(out, ",")
}

func c16EmitCase(c *c16Case, comp *c16Compiled) {
	var inv struct {
		Call      string          `json:"call"`
		Args      json.RawMessage `json:"args"`
		Include   string          `json:"mro_file"`
		SplitArgs []string        `json:"splitargs"`
	}
	if err := json.Unmarshal([]byte(c.invText), &inv); err != nil {
		panic("c16 gen: generated invocation is not JSON: " + err.Error() + "\n" + c.invText)
	}
	var floats []string
	args, err := c16Decode(inv.Args, &floats)
	if err != nil {
		panic("c16 gen: " + err.Error())
	}
	lookup := &comp.ast.TypeTable
	ast := comp.ast
	if c.lk == 'b' {
		lookup = syntax.NewTypeLookup()
		ast = nil
	}
	wf := "0"
	if c.wf {
		wf = "1"
	}
	fmt.Fprintf(hx.Out, "v %s %c %s %s %s %s %s %s %s %s %s %s\n", wf, c.lk, hx.H(c.sig.file), hx.H(c.sig.mro()),
		hx.H(c.invText), comp.dump, c16Known(lookup, ast), hx.H(inv.Call), hx.H(inv.Include), args.Enc(),
		c16HexList(inv.SplitArgs), c16FloatTable(floats))
}

func c16Gen(tier string, r *hx.Rng) {
	nsig, per := 40, 30
	if tier == "thorough" {
		nsig, per = 400, 60
	}
	dir, err := os.MkdirTemp("", "c16gen")
	if err != nil {
		panic(err)
	}
	defer os.RemoveAll(dir)
	// fixed corpus first: the shapes behind the recorded defects
	c16Corpus(dir)
	for i := 0; i < nsig; i++ {
		sig := c16GenSig(r, i)
		comp, err := c16Compile(sig, dir)
		if err != nil {
			panic("c16 gen: generated signature does not compile: " + err.Error() + "\n" + sig.mro())
		}
		for j := 0; j < per; j++ {
			wf := j%3 != 2
			exotic := j%5 == 4
			c16EmitCase(c16GenInvocation(r, sig, wf, exotic), comp)
		}
	}
}

// c16Corpus: hand-written cases run first on every check.
func c16Corpus(dir string) {
	sig := &c16Sig{file: "corpus.mro", name: "ST",
		structs: []c16Struct{
			{name: "S", members: []c16Member{{"a", c16Type{base: "int"}}, {"b", c16Type{base: "string"}}}},
			{name: "T", members: []c16Member{{"s", c16Type{base: "S"}}, {"ss", c16Type{base: "S", arr: 1}},
				{"ms", c16Type{base: "S", mp: 1}}, {"m", c16Type{base: "map"}}}},
		},
		params: []c16Member{{"i", c16Type{base: "int"}}, {"f", c16Type{base: "float"}}, {"s", c16Type{base: "string"}},
			{"st", c16Type{base: "S"}}, {"sa", c16Type{base: "S", arr: 1}}, {"sm", c16Type{base: "S", mp: 1}},
			{"sma", c16Type{base: "S", mp: 2}}, {"t", c16Type{base: "T"}}, {"m", c16Type{base: "map"}},
			{"ia", c16Type{base: "int", arr: 2}}},
	}
	comp, err := c16Compile(sig, dir)
	if err != nil {
		panic(err)
	}
	inv := func(args, split string) string {
		s := `{"call":"ST","mro_file":"corpus.mro","args":{` + args + `}`
		if split != "" {
			s += `,"splitargs":[` + split + `]`
		}
		return s + "}"
	}
	for _, c := range []struct {
		wf        bool
		text      string
		splitArgs []string
	}{
		{true, inv(`"s":"😀"`, ""), nil},
		{true, inv(`"s":"a\/b"`, ""), nil},
		{true, inv(`"f":10000000000000000000`, ""), nil},
		{true, inv(`"f":1e19,"i":9223372036854775807`, ""), nil},
		{true, inv(`"st":{"split":{"k1":{"a":1,"b":"x"},"k2":{"a":2,"b":"y"}}}`, `"st"`), []string{"st"}},
		{true, inv(`"sa":{"split":{"k":[{"a":1,"b":"x"}]}}`, `"sa"`), []string{"sa"}},
		{true, inv(`"sa":{"split":[[{"a":1,"b":"x"}]]},"sm":{"split":[{"k":{"a":1,"b":"x"}}]}`, `"sa","sm"`), []string{"sa", "sm"}},
		{true, inv(`"t":{"s":{"a":1,"b":null},"ss":[{"a":2,"b":"q"}],"ms":{"k":{"a":3,"b":""}},"m":{"a":{"b":4}}},"sma":{"k":[{"a":1,"b":"z"}]}`, ""), nil},
		{true, inv(`"m":{"x":{"y":[{"z":1.5}]},"e":{}},"ia":[[1,2],[],null],"sm":{}`, ""), nil},
		{false, inv(`"st":{"a":1,"b":"x","c d":{"x":1}}`, ""), nil},
		{false, inv(`"i":{"split":[]}`, `"i"`), []string{"i"}},
		{false, inv(`"i":9223372036854775808`, ""), nil},
	} {
		c16EmitCase(&c16Case{wf: c.wf, lk: 'c', sig: sig, invText: c.text, splitArgs: c.splitArgs}, comp)
	}
}

// ------------------------------------------------------------------ impl

type c16Env struct {
	dir   string
	cache map[string]*c16Compiled
}

func (e *c16Env) compiled(file, mro string) *c16Compiled {
	if c, ok := e.cache[file+"\x00"+mro]; ok {
		return c
	}
	full := filepath.Join(e.dir, file)
	_ = os.MkdirAll(filepath.Dir(full), 0o755)
	if err := os.WriteFile(full, []byte(mro), 0o644); err != nil {
		panic(err)
	}
	_, _, ast, err := syntax.ParseSourceBytes([]byte(mro), full, []string{e.dir}, false)
	if err != nil {
		panic("c16: include file does not compile: " + err.Error())
	}
	c := &c16Compiled{ast: ast}
	e.cache[file+"\x00"+mro] = c
	return c
}

func c16NewEnv(args []string) *c16Env {
	dir := os.TempDir()
	if len(args) > 0 {
		dir = args[0]
	}
	dir = filepath.Join(dir, "c16mro")
	_ = os.MkdirAll(dir, 0o755)
	syntax.SetEnforcementLevel(syntax.EnforceError)
	return &c16Env{dir: dir, cache: map[string]*c16Compiled{}}
}

// c16InvLine prints an InvocationData the way the model prints its
// invocation record: call, include, args in parameter order (JV transport,
// numbers by syntax class), split argument names.
func c16InvLine(inv *core.InvocationData, params []string) string {
	var o []hx.JKV
	seen := map[string]bool{}
	for _, p := range params {
		if raw, ok := inv.Args[p]; ok {
			v, err := c16Decode(raw, nil)
			if err != nil {
				return "badjson:" + hx.H(err.Error())
			}
			o = append(o, hx.JKV{Key: p, Val: v.Canon()})
			seen[p] = true
		}
	}
	var rest []string
	for k := range inv.Args {
		if !seen[k] {
			rest = append(rest, k)
		}
	}
	sort.Strings(rest)
	for _, k := range rest {
		v, _ := c16Decode(inv.Args[k], nil)
		o = append(o, hx.JKV{Key: k, Val: v.Canon()})
	}
	return hx.H(inv.Call) + " " + hx.H(inv.Include) + " " + hx.JObj(o).Enc() + " " + c16HexList(inv.SplitArgs)
}

func c16ParamIds(c syntax.Callable) []string {
	var out []string
	for _, p := range c.GetInParams().List {
		out = append(out, p.GetId())
	}
	return out
}

// Observation: E (BuildCallAst returns an error), or
// ok <bindings of the built Ast> <BuildDataForAst of that Ast>.
func c16Impl(args []string) {
	env := c16NewEnv(args)
	hx.Lines(os.Stdin, func(f []string) {
		if f[0] != "v" {
			fmt.Fprintln(hx.Out, "?")
			return
		}
		comp := env.compiled(hx.U(f[3]), hx.U(f[4]))
		var inv core.InvocationData
		if err := json.Unmarshal([]byte(hx.U(f[5])), &inv); err != nil {
			fmt.Fprintln(hx.Out, "badinv")
			return
		}
		callable := comp.ast.Callables.Table[inv.Call]
		lookup := &comp.ast.TypeTable
		if f[2] == "b" {
			lookup = syntax.NewTypeLookup()
		}
		ast, err := core.BuildCallAst(inv.Call, inv.Args.ToMarshalerMap(), inv.SplitArgs, callable, lookup, []string{env.dir})
		if err != nil || ast == nil {
			fmt.Fprintln(hx.Out, "E")
			return
		}
		bs := make([]astdump.Sx, 0, len(ast.Call.Bindings.List))
		for _, b := range ast.Call.Bindings.List {
			bs = append(bs, astdump.P(astdump.B(b.Id), astdump.Exp(b.Exp)))
		}
		data, err := core.BuildDataForAst(ast)
		if err != nil {
			fmt.Fprintln(hx.Out, "ok", astdump.L(bs).Transport(), "dataerr")
			return
		}
		fmt.Fprintln(hx.Out, "ok", astdump.L(bs).Transport(), c16InvLine(data, c16ParamIds(callable)))
	})
}
