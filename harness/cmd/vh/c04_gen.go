package main

// Generator of file-passing pipelines for the VDR properties (C04, C14).
//
// Every call has its own stage (call id = stage name), whose inputs are
// declared with exactly the types of the expressions bound to them, so the
// programs are well typed by construction.  Files travel directly (file
// type), inside structs / arrays / typed maps, as strings and untyped maps
// containing paths, through a sub-pipeline boundary, to several consumers and
// across mapped calls (static and run-time sized); stages and calls carry
// volatile / strict / retain annotations; a consumer may be disabled.
// Every stage follows the contract of the property: its file outputs name
// files it wrote itself under its own files directory.

import (
	"path/filepath"
	"encoding/json"
	"fmt"
	"sort"
	"strings"

	"verifharness/internal/hx"
)

type c04Param struct{ Name, Ty string }

type c04Src struct{ Expr, Ty string }

type c04StageDef struct {
	Name    string
	Ins     []c04Param
	Outs    []c04Param
	Split   bool
	NChunks int
	VolDecl string // "", "strict", "false"
	Retain  []string
	Files   map[string]*c04PhaseSpec
}

type c04CallDef struct {
	Callee   string
	Binds    []string // one expression per input of the callee, in order
	InNames  []string
	Mapped   bool
	Volatile bool
	Disabled string
}

type c04PipeDef struct {
	Name   string
	Ins    []c04Param
	Outs   []c04Param
	Rets   []string
	Calls  []*c04CallDef
	Retain []string
}

type c04Prog struct {
	Stages  []*c04StageDef
	Pipes   []*c04PipeDef // callees first
	TopArgs []string      // name = value lines of the top call
	Stats   map[string]int
	Feat    map[string]bool
}

type c04Gen struct {
	r        *hx.Rng
	p        *c04Prog
	stagecmd string
	nStage   int
	dynamic  bool
	symlinks bool
	forceOut string // type of the next new stage's first output
	// heavyDisable: every second consumer call of the top pipeline is disabled
	// by the pipeline's flag, which is then true (a producer whose only
	// consumer never runs)
	heavyDisable bool
}

var c04OutTypes = []string{"txt", "txt", "txt[]", "FS", "FS[]", "map<txt>", "map<FS>", "string", "map", "int", "int[]"}

func c04Liftable(t string) bool {
	switch t {
	case "txt", "FS", "int", "string", "txt[]":
		return true
	}
	return false
}

func c04FileTy(t string) bool {
	switch t {
	case "txt", "txt[]", "FS", "FS[]", "map<txt>", "map<FS>":
		return true
	}
	return false
}

func c04Elem(t string) string {
	if strings.HasSuffix(t, "[]") {
		return t[:len(t)-2]
	}
	if strings.HasPrefix(t, "map<") {
		return t[4 : len(t)-1]
	}
	return ""
}

// derived sources: projections through structs, arrays and typed maps
func c04Derive(s c04Src) []c04Src {
	out := []c04Src{s}
	switch s.Ty {
	case "FS":
		out = append(out, c04Src{s.Expr + ".x", "txt"}, c04Src{s.Expr + ".y", "txt"}, c04Src{s.Expr + ".n", "int"})
	case "FS[]":
		out = append(out, c04Src{s.Expr + ".x", "txt[]"}, c04Src{s.Expr + ".n", "int[]"})
	case "map<FS>":
		out = append(out, c04Src{s.Expr + ".x", "map<txt>"})
	}
	return out
}

func (g *c04Gen) feat(k string) {
	g.p.Stats[k]++
	g.p.Feat[k] = true
}

func (g *c04Gen) fileName(stage, tag string) string {
	g.nStage++
	return fmt.Sprintf("%s_%s%d_s%d.dat", strings.ToLower(stage), tag, g.nStage, 1+g.r.Intn(3000))
}

// value template of one output, and the files it needs
func (g *c04Gen) outValue(stage, ty string, w *[][]string) interface{} {
	// one subdirectory per output: a directory shared by the files of two
	// outputs outlives the files of the one whose holders finish first, and
	// whether that output then still "refers to an existing file" is
	// recomputed by the runtime at every cache refresh but fixed in the model
	subdir := fmt.Sprintf("sub%d/", g.nStage)
	file := func() interface{} {
		if g.r.Intn(12) == 0 {
			return nil
		}
		n := g.fileName(stage, "o")
		if g.r.Intn(6) == 0 {
			n = subdir + n
			g.feat("file_in_subdir")
		}
		*w = append(*w, []string{"files", n, n[strings.LastIndex(n, "_s")+2 : len(n)-4]})
		return "@F/" + n
	}
	fs := func() interface{} {
		m := map[string]interface{}{"x": file(), "n": g.r.Intn(9), "y": nil}
		if g.r.Bool() {
			m["y"] = file()
		}
		return m
	}
	switch ty {
	case "txt":
		if g.r.Intn(8) == 0 {
			// a directory as a file-typed output
			d := fmt.Sprintf("%s_dir%d", strings.ToLower(stage), g.nStage)
			g.nStage++
			for k := 0; k < 2; k++ {
				n := d + "/" + g.fileName(stage, "d")
				*w = append(*w, []string{"files", n, n[strings.LastIndex(n, "_s")+2 : len(n)-4]})
			}
			g.feat("directory_output")
			return "@F/" + d
		}
		return file()
	case "txt[]":
		a := []interface{}{}
		for k := g.r.Intn(4); k > 0; k-- {
			a = append(a, file())
		}
		return a
	case "FS":
		return fs()
	case "FS[]":
		a := []interface{}{}
		for k := 1 + g.r.Intn(2); k > 0; k-- {
			a = append(a, fs())
		}
		return a
	case "map<txt>":
		m := map[string]interface{}{}
		for k := g.r.Intn(3); k >= 0; k-- {
			m[fmt.Sprintf("k%d", k)] = file()
		}
		return m
	case "map<FS>":
		m := map[string]interface{}{}
		for k := g.r.Intn(2); k >= 0; k-- {
			m[fmt.Sprintf("k%d", k)] = fs()
		}
		if g.r.Intn(3) == 0 {
			// a key that is also the name of a member of the values: a
			// projection m.x must still go through every value
			m["x"] = fs()
			g.feat("map_key_equals_member_name")
		}
		return m
	case "string":
		if g.r.Bool() {
			g.feat("string_with_path")
			return file()
		}
		return "plain text"
	case "map":
		g.feat("untyped_map_with_paths")
		return map[string]interface{}{"p": file(), "q": 3, "r": map[string]interface{}{"deep": []interface{}{file(), "x"}}}
	case "int":
		return g.r.Intn(100)
	case "int[]":
		a := []interface{}{}
		for k := g.r.Intn(3); k > 0; k-- {
			a = append(a, k)
		}
		return a
	}
	return nil
}

func (g *c04Gen) junk(stage string, w *[][]string) {
	for k := g.r.Intn(3); k > 0; k-- {
		n := g.fileName(stage, "junk")
		if g.r.Intn(4) == 0 {
			n = "jd/" + n
		}
		*w = append(*w, []string{"files", n, n[strings.LastIndex(n, "_s")+2 : len(n)-4]})
	}
	// a file next to another one whose whole name is a prefix of its own
	// (reads.bam / reads.bam.bai): path containment must not be a string
	// prefix test
	if g.r.Intn(3) == 0 {
		var prev []string
		for _, e := range *w {
			if e[0] == "files" {
				prev = append(prev, e[1])
			}
		}
		if len(prev) > 0 {
			// (the size a generated file must have is read from the
			// "_s<size>" in its name: keep the sibling's, so that its
			// content can be verified like any other file's)
			pn := prev[g.r.Intn(len(prev))]
			n := pn + ".idx"
			sz := "0"
			if m := c04SizeRe.FindStringSubmatch(filepath.Base(pn)); m != nil {
				sz = m[1]
			}
			*w = append(*w, []string{"files", n, sz})
			g.feat("sibling_with_name_prefix")
		}
	}
	for k := g.r.Intn(3); k > 0; k-- {
		n := g.fileName(stage, "tmp")
		*w = append(*w, []string{"tmp", n, n[strings.LastIndex(n, "_s")+2 : len(n)-4]})
	}
}

func (g *c04Gen) phaseSpec(st *c04StageDef, withOuts bool) *c04PhaseSpec {
	ps := &c04PhaseSpec{}
	if withOuts {
		outs := map[string]interface{}{}
		for _, o := range st.Outs {
			outs[o.Name] = g.outValue(st.Name, o.Ty, &ps.Write)
		}
		b, _ := json.Marshal(outs)
		ps.Outs = b
	}
	g.junk(st.Name, &ps.Write)
	if g.symlinks && withOuts && g.r.Intn(3) == 0 {
		for _, w := range ps.Write {
			if w[0] == "files" && !strings.Contains(w[1], "/") {
				ps.Links = append(ps.Links, []string{"ln_" + w[1], "@F/" + w[1]})
				g.feat("symlink_to_own_file")
				break
			}
		}
	}
	return ps
}

// newStage makes a stage for a call whose inputs have the given types.
func (g *c04Gen) newStage(ins []c04Param, byArg string, noMapOuts bool) *c04StageDef {
	st := &c04StageDef{Name: fmt.Sprintf("S%d", len(g.p.Stages)), Ins: ins, Files: map[string]*c04PhaseSpec{}}
	g.p.Stages = append(g.p.Stages, st)
	for k := 1 + g.r.Intn(3); k > 0; k-- {
		ty := hx.Pick(g.r, c04OutTypes)
		if g.forceOut != "" {
			ty, g.forceOut = g.forceOut, ""
		}
		// (a call mapped over a typed map whose stage has a map output makes
		// mrp panic "map<map> is not allowed" when it serializes the final
		// state; not a VDR matter, so such programs are not generated)
		for noMapOuts && strings.HasPrefix(ty, "map") {
			ty = hx.Pick(g.r, c04OutTypes)
		}
		st.Outs = append(st.Outs, c04Param{fmt.Sprintf("o%d", len(st.Outs)), ty})
	}
	switch g.r.Intn(6) {
	case 0:
		st.VolDecl = "strict"
		g.feat("stage_volatile_strict")
	case 1:
		st.VolDecl = "false"
		g.feat("stage_volatile_false")
	}
	if g.r.Intn(4) == 0 {
		o := st.Outs[g.r.Intn(len(st.Outs))]
		if c04FileTy(o.Ty) {
			st.Retain = []string{o.Name}
			g.feat("stage_retain")
		}
	}
	if g.r.Intn(3) == 0 {
		st.Split = true
		st.NChunks = g.r.Intn(3)
		if g.r.Intn(3) > 0 {
			st.NChunks = 1 + g.r.Intn(2)
		}
		g.feat(fmt.Sprintf("split_stage_%d_chunks", st.NChunks))
		st.Files["split"] = g.phaseSpec(st, false)
		ch := g.phaseSpec(st, false)
		var cw [][]string
		n := g.fileName(st.Name, "c")
		cw = append(cw, []string{"files", n, n[strings.LastIndex(n, "_s")+2 : len(n)-4]})
		ch.Write = append(ch.Write, cw...)
		b, _ := json.Marshal(map[string]interface{}{"co": "@F/" + n})
		ch.Outs = b
		if st.NChunks >= 2 && g.r.Intn(2) == 0 {
			ch.RmTmp0 = true
			g.feat("chunk0_removes_its_tmp_dir")
		}
		st.Files["chunk"] = ch
		st.Files["join"] = g.phaseSpec(st, true)
	} else {
		st.Files["main"] = g.phaseSpec(st, true)
		if byArg != "" && g.r.Bool() {
			// per-fork behaviour: the fork whose argument is 1 returns null for
			// one output, the others the full set
			v := *st.Files["main"]
			alt := g.phaseSpec(st, true)
			var m map[string]interface{}
			json.Unmarshal(alt.Outs, &m)
			m[st.Outs[g.r.Intn(len(st.Outs))].Name] = nil
			alt.Outs, _ = json.Marshal(m)
			v.By = byArg
			v.Variants = map[string]c04PhaseSpec{"#1e0;": *alt}
			st.Files["main"] = &v
			g.feat("per_fork_null_output")
		}
	}
	return st
}

func (g *c04Gen) pickSrc(avail []c04Src) (c04Src, bool) {
	var all []c04Src
	for _, s := range avail {
		all = append(all, c04Derive(s)...)
	}
	if len(all) == 0 {
		return c04Src{}, false
	}
	s := hx.Pick(g.r, all)
	// sometimes wrap into a literal
	switch {
	case s.Ty == "txt" && g.r.Intn(6) == 0:
		var other []c04Src
		for _, o := range all {
			if o.Ty == "txt" {
				other = append(other, o)
			}
		}
		o := hx.Pick(g.r, other)
		switch g.r.Intn(3) {
		case 0:
			g.feat("array_literal_of_files")
			return c04Src{"[\n            " + s.Expr + ",\n            " + o.Expr + ",\n        ]", "txt[]"}, true
		case 1:
			g.feat("struct_literal_with_files")
			return c04Src{"{\n            n: 1,\n            x: " + s.Expr + ",\n            y: " + o.Expr + ",\n        }", "FS"}, true
		default:
			g.feat("map_literal_of_files")
			return c04Src{"{\n            \"a\": " + s.Expr + ",\n            \"b\": " + o.Expr + ",\n        }", "map<txt>"}, true
		}
	}
	if strings.Contains(s.Expr, ".x") || strings.Contains(s.Expr, ".y") {
		g.feat("projection_" + strings.NewReplacer("<", "_", ">", "", "[]", "_arr").Replace(s.Ty))
	}
	return s, true
}

func (g *c04Gen) genPipe(name string, depth int, ins []c04Param) *c04PipeDef {
	pl := &c04PipeDef{Name: name, Ins: ins}
	var avail []c04Src
	for _, in := range ins {
		if in.Ty != "bool" {
			avail = append(avail, c04Src{"self." + in.Name, in.Ty})
		}
	}
	ncalls := 3 + g.r.Intn(4)
	if depth > 0 {
		ncalls = 2 + g.r.Intn(2)
	}
	if g.dynamic && depth == 0 && g.r.Intn(2) == 0 {
		avail = g.retainedDynamicMap(pl, avail)
	}
	madeSub := false
	for c := 0; c < ncalls; c++ {
		call := &c04CallDef{}
		var params []c04Param
		nb := g.r.Intn(4)
		if c > 0 && nb == 0 {
			nb = 1
		}
		mapIdx := -1
		overMap := false
		for k := 0; k < nb; k++ {
			s, ok := g.pickSrc(avail)
			if !ok {
				break
			}
			ty := s.Ty
			expr := s.Expr
			if mapIdx < 0 && g.r.Intn(3) == 0 && c04Elem(ty) != "" && (ty == "txt[]" || ty == "FS[]" || ty == "int[]" || ty == "map<txt>") {
				if !g.dynamic && strings.Contains(expr, ".") && !strings.HasPrefix(expr, "[") && !strings.HasPrefix(expr, "{") {
					// run-time sized: only when dynamic forks are wanted
				} else {
					mapIdx = k
					if strings.HasPrefix(ty, "map<") {
						overMap = true
						g.feat("map_call_over_typed_map")
					} else {
						g.feat("map_call_over_array")
					}
					ty = c04Elem(ty)
					expr = "split " + expr
				}
			}
			params = append(params, c04Param{fmt.Sprintf("a%d", k), ty})
			call.Binds = append(call.Binds, expr)
		}
		byArg := ""
		if mapIdx < 0 && g.r.Intn(5) == 0 {
			// static mapped call over a literal
			params = append(params, c04Param{"i", "int"})
			call.Binds = append(call.Binds, "split [\n            1,\n            2,\n        ]")
			mapIdx = len(params) - 1
			byArg = "i"
			g.feat("map_call_over_literal")
		}
		if len(params) == 0 {
			params = append(params, c04Param{"i", "int"})
			call.Binds = append(call.Binds, "7")
		}
		call.Mapped = mapIdx >= 0
		for _, p := range params {
			call.InNames = append(call.InNames, p.Name)
		}
		var outs []c04Param
		if depth == 0 && !madeSub && c >= 1 && g.r.Intn(3) == 0 && !call.Mapped {
			madeSub = true
			sub := g.genPipe(fmt.Sprintf("SUB%d", len(g.p.Pipes)), depth+1, params)
			g.p.Pipes = append(g.p.Pipes, sub)
			var kb, kn []string
			for i, n := range call.InNames {
				for _, in := range sub.Ins {
					if in.Name == n {
						kb = append(kb, call.Binds[i])
						kn = append(kn, n)
					}
				}
			}
			call.Binds, call.InNames = kb, kn
			call.Callee = sub.Name
			outs = sub.Outs
			g.feat("sub_pipeline")
		} else {
			st := g.newStage(params, byArg, overMap)
			call.Callee = st.Name
			outs = st.Outs
			if g.r.Intn(3) == 0 {
				call.Volatile = true
				g.feat("call_volatile")
			}
		}
		if c > 0 && (g.r.Intn(10) == 0 || g.heavyDisable && g.r.Intn(2) == 0) {
			for _, in := range ins {
				if in.Ty == "bool" {
					call.Disabled = "self." + in.Name
					g.feat("disabled_call")
				}
			}
		}
		pl.Calls = append(pl.Calls, call)
		for _, o := range outs {
			ty := o.Ty
			if call.Mapped {
				if overMap {
					if ty != "txt" && ty != "FS" {
						continue
					}
					ty = "map<" + ty + ">"
				} else if c04Liftable(ty) {
					ty += "[]"
				} else {
					continue
				}
			}
			avail = append(avail, c04Src{call.Callee + "." + o.Name, ty})
		}
	}
	// return bindings
	nret := 1 + g.r.Intn(3)
	for k := 0; k < nret; k++ {
		s, ok := g.pickSrc(avail)
		if !ok || strings.HasPrefix(s.Expr, "self.") && depth == 0 {
			continue
		}
		pl.Outs = append(pl.Outs, c04Param{fmt.Sprintf("r%d", len(pl.Outs)), s.Ty})
		pl.Rets = append(pl.Rets, s.Expr)
	}
	if len(pl.Outs) == 0 {
		pl.Outs = append(pl.Outs, c04Param{"r0", "int"})
		pl.Rets = append(pl.Rets, "1")
	}
	// unused pipeline inputs are a compile error: drop them
	var usedIns []c04Param
	for _, in := range pl.Ins {
		used := false
		ref := "self." + in.Name
		has := func(e string) bool {
			for i := strings.Index(e, ref); i >= 0; {
				j := i + len(ref)
				if j == len(e) || !(e[j] >= '0' && e[j] <= '9' || e[j] >= 'a' && e[j] <= 'z' || e[j] == '_') {
					return true
				}
				k := strings.Index(e[j:], ref)
				if k < 0 {
					break
				}
				i = j + k
			}
			return false
		}
		for _, c := range pl.Calls {
			for _, e := range c.Binds {
				used = used || has(e)
			}
			used = used || has(c.Disabled)
		}
		for _, e := range pl.Rets {
			used = used || has(e)
		}
		if used {
			usedIns = append(usedIns, in)
		}
	}
	pl.Ins = usedIns
	if g.r.Intn(4) == 0 {
		// pipeline-level retain of some stage output
		var cands []string
		for _, c := range pl.Calls {
			for _, st := range g.p.Stages {
				if st.Name == c.Callee {
					for _, o := range st.Outs {
						if c04FileTy(o.Ty) {
							cands = append(cands, c.Callee+"."+o.Name)
						}
					}
				}
			}
		}
		if len(cands) > 0 {
			if r := hx.Pick(g.r, cands); len(pl.Retain) == 0 || pl.Retain[0] != r {
				pl.Retain = append(pl.Retain, r)
			}
			g.feat("pipeline_retain")
		}
	}
	return pl
}

// retainedDynamicMap: a stage mapped over a collection whose size is only known
// at run time (so all forks but the first are cloned while the pipestance
// runs), usually volatile, whose file output is named by a stage-level or a
// pipeline-level retain AND is consumed by another stage.
func (g *c04Gen) retainedDynamicMap(pl *c04PipeDef, avail []c04Src) []c04Src {
	// the stage that decides the number of forks
	g.forceOut = "int[]"
	a := g.newStage([]c04Param{{"i", "int"}}, "", false)
	if a.Split {
		a.Retain = nil
	}
	phase := "main"
	if a.Split {
		phase = "join"
	}
	var m map[string]interface{}
	json.Unmarshal(a.Files[phase].Outs, &m)
	n := 2 + g.r.Intn(2)
	xs := []interface{}{}
	for k := 1; k <= n; k++ {
		xs = append(xs, k)
	}
	m["o0"] = xs
	a.Files[phase].Outs, _ = json.Marshal(m)
	for _, r := range a.Retain {
		if r == "o0" {
			a.Retain = nil
		}
	}
	pl.Calls = append(pl.Calls, &c04CallDef{Callee: a.Name, Binds: []string{"7"}, InNames: []string{"i"}})
	for _, o := range a.Outs {
		avail = append(avail, c04Src{a.Name + "." + o.Name, o.Ty})
	}
	// the mapped producer
	g.forceOut = hx.Pick(g.r, []string{"txt", "txt", "FS", "txt[]"})
	b := g.newStage([]c04Param{{"i", "int"}}, "i", false)
	call := &c04CallDef{Callee: b.Name, Binds: []string{"split " + a.Name + ".o0"}, InNames: []string{"i"}, Mapped: true}
	if g.r.Intn(3) > 0 {
		call.Volatile = true
	}
	if g.r.Bool() {
		b.Retain = []string{"o0"}
		g.feat("dynamic_map_stage_retain_consumed")
	} else {
		b.Retain = nil
		pl.Retain = append(pl.Retain, b.Name+".o0")
		g.feat("dynamic_map_pipeline_retain_consumed")
	}
	pl.Calls = append(pl.Calls, call)
	for _, o := range b.Outs {
		if c04Liftable(o.Ty) {
			avail = append(avail, c04Src{b.Name + "." + o.Name, o.Ty + "[]"})
		}
	}
	// a consumer of the retained output
	c := g.newStage([]c04Param{{"a0", b.Outs[0].Ty + "[]"}}, "", false)
	pl.Calls = append(pl.Calls, &c04CallDef{Callee: c.Name, Binds: []string{b.Name + ".o0"}, InNames: []string{"a0"}})
	for _, o := range c.Outs {
		avail = append(avail, c04Src{c.Name + "." + o.Name, o.Ty})
	}
	return avail
}

func c04Generate(r *hx.Rng, stagecmd string, dynamic, symlinks bool) *c04Prog {
	return c04GenerateOpt(r, stagecmd, dynamic, symlinks, false)
}

func c04GenerateOpt(r *hx.Rng, stagecmd string, dynamic, symlinks, heavyDisable bool) *c04Prog {
	g := &c04Gen{r: r, stagecmd: stagecmd, dynamic: dynamic, symlinks: symlinks, heavyDisable: heavyDisable,
		p: &c04Prog{Stats: map[string]int{}, Feat: map[string]bool{}}}
	top := g.genPipe("TOP", 0, []c04Param{{"off", "bool"}, {"seed", "int"}})
	g.p.Pipes = append(g.p.Pipes, top)
	off := "false"
	if r.Intn(2) == 0 || heavyDisable {
		off = "true"
	}
	for _, in := range top.Ins {
		if in.Name == "off" {
			g.p.TopArgs = append(g.p.TopArgs, "off = "+off)
		} else {
			g.p.TopArgs = append(g.p.TopArgs, in.Name+" = 3")
		}
	}
	return g.p
}

func (p *c04Prog) Mro(stagecmd string) string {
	var b strings.Builder
	b.WriteString("filetype txt;\n\nstruct FS(\n    txt x,\n    int n,\n    txt y,\n)\n\n")
	for _, st := range p.Stages {
		fmt.Fprintf(&b, "stage %s(\n", st.Name)
		for _, in := range st.Ins {
			fmt.Fprintf(&b, "    in  %s %s,\n", in.Ty, in.Name)
		}
		for _, o := range st.Outs {
			fmt.Fprintf(&b, "    out %s %s,\n", o.Ty, o.Name)
		}
		fmt.Fprintf(&b, "    src comp \"%s %s\",\n)", stagecmd, st.Name)
		if st.Split {
			b.WriteString(" split (\n    in  int ci,\n    out txt co,\n)")
		}
		if st.VolDecl != "" {
			fmt.Fprintf(&b, " using (\n    volatile = %s,\n)", st.VolDecl)
		}
		if len(st.Retain) > 0 {
			b.WriteString(" retain (\n")
			for _, r := range st.Retain {
				fmt.Fprintf(&b, "    %s,\n", r)
			}
			b.WriteString(")")
		}
		b.WriteString("\n\n")
	}
	for _, pl := range p.Pipes {
		fmt.Fprintf(&b, "pipeline %s(\n", pl.Name)
		for _, in := range pl.Ins {
			fmt.Fprintf(&b, "    in  %s %s,\n", in.Ty, in.Name)
		}
		for _, o := range pl.Outs {
			fmt.Fprintf(&b, "    out %s %s,\n", o.Ty, o.Name)
		}
		b.WriteString(")\n{\n")
		for _, c := range pl.Calls {
			if c.Mapped {
				b.WriteString("    map call ")
			} else {
				b.WriteString("    call ")
			}
			fmt.Fprintf(&b, "%s(\n", c.Callee)
			for i, e := range c.Binds {
				fmt.Fprintf(&b, "        %s = %s,\n", c.InNames[i], e)
			}
			b.WriteString("    )")
			if c.Volatile || c.Disabled != "" {
				b.WriteString(" using (\n")
				if c.Disabled != "" {
					fmt.Fprintf(&b, "        disabled = %s,\n", c.Disabled)
				}
				if c.Volatile {
					b.WriteString("        volatile = true,\n")
				}
				b.WriteString("    )")
			}
			b.WriteString("\n\n")
		}
		b.WriteString("    return (\n")
		for i, o := range pl.Outs {
			fmt.Fprintf(&b, "        %s = %s,\n", o.Name, pl.Rets[i])
		}
		b.WriteString("    )\n")
		if len(pl.Retain) > 0 {
			b.WriteString("\n    retain (\n")
			for _, r := range pl.Retain {
				fmt.Fprintf(&b, "        %s,\n", r)
			}
			b.WriteString("    )\n")
		}
		b.WriteString("}\n\n")
	}
	top := p.Pipes[len(p.Pipes)-1]
	fmt.Fprintf(&b, "call %s(\n", top.Name)
	for _, a := range p.TopArgs {
		fmt.Fprintf(&b, "    %s,\n", a)
	}
	b.WriteString(")\n")
	return b.String()
}

// Spec renders spec.json: the generic stage table (all results come from the
// files table's templates) and the files table.
func (p *c04Prog) Spec() []byte {
	stages := map[string]interface{}{}
	files := map[string]interface{}{}
	for _, st := range p.Stages {
		e := map[string]interface{}{"split": st.Split, "outs": map[string]interface{}{}}
		if st.Split {
			var defs []string
			for i := 0; i < st.NChunks; i++ {
				defs = append(defs, hx.JObj([]hx.JKV{{Key: "ci", Val: hx.JInt(int64(i))}}).Enc())
			}
			if defs == nil {
				defs = []string{}
			}
			e["chunk_const"] = defs
			e["chunk_outs"] = map[string]interface{}{}
		}
		stages[st.Name] = e
		files[st.Name] = st.Files
	}
	b, _ := json.Marshal(map[string]interface{}{"stages": stages, "files": files})
	return b
}

func (p *c04Prog) FeatureList() []string {
	var l []string
	for k := range p.Feat {
		l = append(l, k)
	}
	sort.Strings(l)
	return l
}
