package main

import (
	"encoding/json"
	"fmt"
	"os"
	"os/exec"
	"path/filepath"
	"strconv"
	"strings"
	"syscall"
	"time"

	"verifharness/internal/hx"
)

// Crash (C05) and fault (C06) scenario drivers on top of runMrp.

func init() {
	p := props["c01"]
	p.extra["crashrun"] = crashRunCmd
	p.extra["faultrun"] = faultRunCmd
	props["c05"] = p
	props["c06"] = p
}

type incarnation struct {
	Exit      int    `json:"exit"`
	TimedOut  bool   `json:"timed_out"`
	Signal    string `json:"signal,omitempty"`
	LockAfter bool   `json:"lock_after"`
	Events    int    `json:"events"`
	Tail      string `json:"tail"`
	Ms        int64  `json:"ms"`
}

type stuckJob struct {
	ID      string `json:"id"`
	Pid     int    `json:"pid"`
	TmpInfo bool   `json:"jobinfo_tmp"`
}

type scenarioResult struct {
	Stuck        []stuckJob    `json:"stuck,omitempty"` // after a hung restart: started, unfinished jobs
	Incarnations []incarnation `json:"incarnations"`
	Outs         string        `json:"outs"`
	ErrorNames   []string      `json:"error_names,omitempty"` // stage paths named by the failure report
}

func countLines(path string) int {
	b, err := os.ReadFile(path)
	if err != nil {
		return 0
	}
	return strings.Count(string(b), "\n")
}

func tail(s string, n int) string {
	if len(s) > n {
		return s[len(s)-n:]
	}
	return s
}

// startMrp starts mrp for one incarnation; events go to <psid>.inc<i>.events
func startMrp(bindir, dir, psid string, inc int, extraArgs, extraEnv []string) (*exec.Cmd, *strings.Builder, string) {
	mrp := filepath.Join(bindir, "bin", "mrp")
	args := append([]string{"pipeline.mro", psid, "--localcores=8", "--localmem=8", "--disable-ui"}, extraArgs...)
	cmd := exec.Command(mrp, args...)
	cmd.Dir = dir
	evfile := filepath.Join(dir, fmt.Sprintf("%s.inc%d.events", psid, inc))
	cmd.Env = append(os.Environ(), "MROPATH="+dir, "VH_SPEC="+filepath.Join(dir, "spec.json"), "VH_EVENTS="+evfile)
	cmd.Env = append(cmd.Env, extraEnv...)
	cmd.SysProcAttr = &syscall.SysProcAttr{Setpgid: true}
	out := &strings.Builder{}
	cmd.Stdout = out
	cmd.Stderr = out
	if err := cmd.Start(); err != nil {
		out.WriteString(err.Error())
		return nil, out, evfile
	}
	return cmd, out, evfile
}

func waitMrp(cmd *exec.Cmd, timeout time.Duration) (exit int, timedOut bool) {
	done := make(chan error, 1)
	go func() { done <- cmd.Wait() }()
	select {
	case err := <-done:
		if err != nil {
			if ee, ok := err.(*exec.ExitError); ok {
				if ws, ok := ee.Sys().(syscall.WaitStatus); ok && ws.Signaled() {
					return 128 + int(ws.Signal()), false
				}
				return ee.ExitCode(), false
			}
			return -1, false
		}
		return 0, false
	case <-time.After(timeout):
		syscall.Kill(-cmd.Process.Pid, syscall.SIGKILL)
		<-done
		return -2, true
	}
}

// recordComplete writes <events>.complete: the ids of the jobs started in
// this incarnation whose completion marker exists on disk now (the stage's
// own 'end' record only says the process finished; a completion is recorded
// when the monitor has written _complete).
func recordComplete(evfile string) {
	var done []string
	for _, e := range readEventsRaw(evfile) {
		if len(e) >= 6 && e[1] == "start" {
			if _, err := os.Stat(filepath.Join(e[5], "_complete")); err == nil {
				done = append(done, e[2])
			}
		}
	}
	os.WriteFile(evfile+".complete", []byte(strings.Join(done, "\n")+"\n"), 0o644)
}

func readEventsRaw(path string) [][]string {
	b, err := os.ReadFile(path)
	if err != nil {
		return nil
	}
	var out [][]string
	for _, l := range strings.Split(string(b), "\n") {
		if f := strings.Fields(l); len(f) > 0 {
			out = append(out, f)
		}
	}
	return out
}

// waitGroupGone waits until no process (zombies included) of process group
// pgid is left in /proc.
func waitGroupGone(pgid int, max time.Duration) {
	deadline := time.Now().Add(max)
	for time.Now().Before(deadline) {
		found := false
		ents, _ := os.ReadDir("/proc")
		for _, e := range ents {
			if _, err := strconv.Atoi(e.Name()); err != nil {
				continue
			}
			b, err := os.ReadFile("/proc/" + e.Name() + "/stat")
			if err != nil {
				continue
			}
			// pid (comm) state ppid pgrp ...
			if i := strings.LastIndexByte(string(b), ')'); i > 0 {
				f := strings.Fields(string(b)[i+1:])
				if len(f) > 2 {
					if g, _ := strconv.Atoi(f[2]); g == pgid {
						found = true
						break
					}
				}
			}
		}
		if !found {
			return
		}
		time.Sleep(5 * time.Millisecond)
	}
}

func lockExists(dir, psid string) bool {
	_, err := os.Stat(filepath.Join(dir, psid, "_lock"))
	return err == nil
}

// vh c05 crashrun <progdir> <bindir> <psid> <K> <offset_ms> <mode> [sched]
// mode: kill (SIGKILL mrp only), killgroup (SIGKILL mrp and its jobs),
// term / int (handled signals to mrp).
// The signal is sent offset_ms after the K-th line appeared in the event log
// (K = 0: offset_ms after launch).  Afterwards the stale lock is removed (kill
// modes) and mrp is restarted until it exits by itself (at most 3 more times).
func crashRunCmd(args []string) {
	dir, bindir, psid := args[0], args[1], args[2]
	k, _ := strconv.Atoi(args[3])
	off, _ := strconv.Atoi(args[4])
	mode := args[5]
	var env []string
	if len(args) > 6 && args[6] != "" {
		env = append(env, "VH_SCHED="+args[6])
	}
	var res scenarioResult
	cmd, out, evfile := startMrp(bindir, dir, psid, 0, nil, env)
	if cmd == nil {
		res.Incarnations = append(res.Incarnations, incarnation{Exit: -1, Tail: out.String()})
		printJSON(res)
		return
	}
	t0 := time.Now()
	exited := make(chan struct{})
	var exit int
	var timedOut bool
	go func() { exit, timedOut = waitMrp(cmd, 90*time.Second); close(exited) }()
	signalled := ""
	deadline := time.After(60 * time.Second)
loop:
	for {
		select {
		case <-exited:
			break loop
		case <-deadline:
			break loop
		default:
		}
		if countLines(evfile) >= k {
			time.Sleep(time.Duration(off) * time.Millisecond)
			select {
			case <-exited:
				break loop
			default:
			}
			switch mode {
			case "kill":
				syscall.Kill(cmd.Process.Pid, syscall.SIGKILL)
			case "killgroup":
				syscall.Kill(-cmd.Process.Pid, syscall.SIGKILL)
			case "term":
				syscall.Kill(cmd.Process.Pid, syscall.SIGTERM)
			case "int":
				syscall.Kill(cmd.Process.Pid, syscall.SIGINT)
			}
			signalled = mode
			break loop
		}
		time.Sleep(500 * time.Microsecond)
	}
	<-exited
	recordComplete(evfile)
	res.Incarnations = append(res.Incarnations, incarnation{Exit: exit, TimedOut: timedOut, Signal: signalled,
		LockAfter: lockExists(dir, psid), Events: countLines(evfile), Tail: tail(out.String(), 1500),
		Ms: time.Since(t0).Milliseconds()})
	// let orphaned jobs of a kill-mrp-only crash finish or die
	if signalled == "kill" {
		time.Sleep(300 * time.Millisecond)
	}
	if signalled == "killgroup" {
		// The killed job processes must have been reaped before the restart:
		// mrp recognises a dead job by its pid no longer existing, and a
		// zombie waiting for the sandbox's init to reap it still has one.
		waitGroupGone(cmd.Process.Pid, 15*time.Second)
	}
	for inc := 1; inc <= 3; inc++ {
		if res.Incarnations[len(res.Incarnations)-1].Exit == 0 && signalled == "" {
			break
		}
		if inc > 1 && res.Incarnations[len(res.Incarnations)-1].Exit == 0 {
			break
		}
		// the operator removes the stale lock after SIGKILL, as documented
		if mode == "kill" || mode == "killgroup" || inc > 1 {
			os.Remove(filepath.Join(dir, psid, "_lock"))
		}
		t1 := time.Now()
		cmd, out, evfile = startMrp(bindir, dir, psid, inc, nil, env)
		if cmd == nil {
			break
		}
		e, to := waitMrp(cmd, 40*time.Second)
		recordComplete(evfile)
		res.Incarnations = append(res.Incarnations, incarnation{Exit: e, TimedOut: to,
			LockAfter: lockExists(dir, psid), Events: countLines(evfile), Tail: tail(out.String(), 1500),
			Ms: time.Since(t1).Milliseconds()})
		if e == 0 {
			break
		}
		if to {
			// which job attempts is mrp still waiting for?  The current attempt
			// of a job is the target of the split / chnkN / join link in its
			// fork directory.
			filepath.WalkDir(filepath.Join(dir, psid), func(p string, d os.DirEntry, err error) error {
				if err != nil || d.Type()&os.ModeSymlink == 0 {
					return nil
				}
				n := d.Name()
				if n != "split" && n != "join" && !strings.HasPrefix(n, "chnk") {
					return nil
				}
				md, err := filepath.EvalSymlinks(p)
				if err != nil {
					return nil
				}
				if _, err := os.Stat(filepath.Join(md, "_jobinfo")); err != nil {
					return nil // never submitted
				}
				for _, f := range []string{"_complete", "_errors", "_assert"} {
					if _, err := os.Stat(filepath.Join(md, f)); err == nil {
						return nil
					}
				}
				var ji struct {
					Pid int `json:"pid"`
				}
				if b, err := os.ReadFile(filepath.Join(md, "_jobinfo")); err == nil {
					json.Unmarshal(b, &ji)
				}
				_, tmpErr := os.Stat(filepath.Join(md, "_jobinfo.tmp"))
				rel, _ := filepath.Rel(filepath.Join(dir, psid), p)
				res.Stuck = append(res.Stuck, stuckJob{ID: strings.ReplaceAll(rel, "/", "."), Pid: ji.Pid, TmpInfo: tmpErr == nil})
				return nil
			})
			break
		}
	}
	for inc := range res.Incarnations {
		recordComplete(filepath.Join(dir, fmt.Sprintf("%s.inc%d.events", psid, inc)))
	}
	res.Outs = readTopOuts(dir, psid)
	printJSON(res)
}

func printJSON(v interface{}) {
	b, _ := json.Marshal(v)
	fmt.Fprintln(hx.Out, string(b))
}

// vh c06 faultrun <progdir> <bindir> <psid> <jobid-or-STAGE:phase> <kind> <autoretry> [once]
// Incarnation 0 runs with the fault armed (marker file present); then the
// fault is removed and mrp is restarted on the same directory.
func faultRunCmd(args []string) {
	dir, bindir, psid, site, kind := args[0], args[1], args[2], args[3], args[4]
	retry := args[5]
	once := len(args) > 6 && args[6] == "once"
	marker := filepath.Join(dir, psid+".fault")
	os.WriteFile(marker, []byte("armed"), 0o644)
	env := []string{"VH_FAULTS=" + site + "=" + kind, "VH_FAULT_MARKER=" + marker}
	if once {
		env = append(env, "VH_FAULT_ONCE=1")
	}
	var res scenarioResult
	for inc := 0; inc < 2; inc++ {
		if inc == 1 {
			os.Remove(marker)
			os.Remove(filepath.Join(dir, psid, "_lock"))
		}
		t0 := time.Now()
		cmd, out, evfile := startMrp(bindir, dir, psid, inc, []string{"--autoretry=" + retry}, env)
		if cmd == nil {
			res.Incarnations = append(res.Incarnations, incarnation{Exit: -1, Tail: out.String()})
			break
		}
		e, to := waitMrp(cmd, 90*time.Second)
		// mrp signals its local jobs when it shuts down and does not wait
		// for them: a job monitor that is still dying writes its _errors
		// ("Caught signal terminated") after a restart that follows at
		// once has already reset the stage.  The restart the property
		// talks about happens after the previous incarnation is gone.
		waitGroupGone(cmd.Process.Pid, 10*time.Second)
		recordComplete(evfile)
		res.Incarnations = append(res.Incarnations, incarnation{Exit: e, TimedOut: to,
			LockAfter: lockExists(dir, psid), Events: countLines(evfile), Tail: tail(out.String(), 2500),
			Ms: time.Since(t0).Milliseconds()})
		if inc == 0 {
			// which stage does the failure report name?
			// (console output, and the pipestance log: while preflight
			// stages run the console is kept quiet by design)
			report := out.String()
			if b, err := os.ReadFile(filepath.Join(dir, psid, "_log")); err == nil {
				report += "\n" + string(b)
			}
			seen := map[string]bool{}
			for _, line := range strings.Split(report, "\n") {
				if strings.Contains(line, "_errors") || strings.Contains(line, "_assert") || strings.Contains(line, "(failed)") {
					if t := strings.TrimSpace(line); !seen[t] {
						seen[t] = true
						res.ErrorNames = append(res.ErrorNames, t)
					}
				}
			}
		}
		if e == 0 {
			break
		}
	}
	for inc := range res.Incarnations {
		recordComplete(filepath.Join(dir, fmt.Sprintf("%s.inc%d.events", psid, inc)))
	}
	res.Outs = readTopOuts(dir, psid)
	printJSON(res)
}
