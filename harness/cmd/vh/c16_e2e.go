// vh c16 e2e <progs> <psid> <name>...: the per-fork _invocation files of
// finished pipestances (run by the real mrp, see checks/pipelib.py).
//
// For every stage fork (a directory with _invocation and split/_args) the
// recorded text must (1) convert to invocation data, (2) compile against the
// pipestance's mro as a call of a stage, named as the fork's node, and (3)
// carry exactly the fork's resolved arguments: every value equal to the
// fork's _args (JSON values; floats compared as float64).
//
// Output per file: ok <dir> | FAIL <class> <dir> <hex detail>.
package main

import (
	"fmt"
	"io/fs"
	"os"
	"path/filepath"
	"sort"
	"strings"

	"verifharness/internal/hx"

	"github.com/martian-lang/martian/martian/core"
	"github.com/martian-lang/martian/martian/syntax"
)

func c16E2E(args []string) {
	if len(args) < 2 {
		fmt.Fprintln(os.Stderr, "usage: vh c16 e2e <progs> <psid> <name>...")
		os.Exit(2)
	}
	syntax.SetEnforcementLevel(syntax.EnforceError)
	progs, psid := args[0], args[1]
	for _, name := range args[2:] {
		d := filepath.Join(progs, name)
		// The generated program keeps its top-level call in pipeline.mro;
		// an invocation includes the declarations only, so the include path
		// gets a copy of the file without the call statement.
		decl := filepath.Join(d, "__c16decl")
		if src, err := os.ReadFile(filepath.Join(d, "pipeline.mro")); err == nil {
			cut := -1
			for _, pat := range []string{"\ncall ", "\nmap call "} {
				if i := strings.LastIndex(string(src), pat); i > cut {
					cut = i
				}
			}
			if cut >= 0 {
				src = src[:cut+1]
			}
			_ = os.MkdirAll(decl, 0o755)
			_ = os.WriteFile(filepath.Join(decl, "pipeline.mro"), src, 0o644)
		}
		mro := []string{decl}
		var files []string
		_ = filepath.WalkDir(filepath.Join(d, psid), func(p string, e fs.DirEntry, err error) error {
			if err == nil && !e.IsDir() && e.Name() == "_invocation" {
				if _, err := os.Stat(filepath.Join(filepath.Dir(p), "split", "_args")); err == nil {
					files = append(files, p)
				}
			}
			return nil
		})
		sort.Strings(files)
		for _, p := range files {
			fork := filepath.Dir(p)
			rel, _ := filepath.Rel(progs, fork)
			fail := func(class, detail string) {
				fmt.Fprintln(hx.Out, "FAIL", class, rel, hx.H(detail))
			}
			text, err := os.ReadFile(p)
			if err != nil {
				fail("unreadable", err.Error())
				continue
			}
			inv, err := core.InvocationDataFromSource(text, mro)
			if err != nil {
				fail("not-convertible", err.Error()+"\n"+string(text))
				continue
			}
			_, _, ast, err := syntax.ParseSourceBytes(text, filepath.Join(decl, "__invocation.mro"), mro, false)
			if err != nil {
				fail("not-compiling", err.Error()+"\n"+string(text))
				continue
			}
			// nested forks: <node>/fork<i>/fork<j>
			nd := filepath.Dir(fork)
			for strings.HasPrefix(filepath.Base(nd), "fork") {
				nd = filepath.Dir(nd)
			}
			node := filepath.Base(nd)
			if ast.Call == nil || ast.Call.Id != node {
				fail("wrong-call", fmt.Sprintf("node %s\n%s", node, text))
				continue
			}
			if _, ok := ast.Callables.Table[ast.Call.DecId].(*syntax.Stage); !ok || inv.Call != ast.Call.DecId {
				fail("not-a-stage-call", string(text))
				continue
			}
			if len(inv.SplitArgs) != 0 {
				fail("split-in-fork-invocation", string(text))
				continue
			}
			raw, err := os.ReadFile(filepath.Join(fork, "split", "_args"))
			if err != nil {
				fail("unreadable", err.Error())
				continue
			}
			want, err := c16Decode(raw, nil)
			if err != nil || want.K != '{' {
				fail("bad-args-file", string(raw))
				continue
			}
			bad := ""
			seen := map[string]bool{}
			for _, kv := range want.Canon().O {
				seen[kv.Key] = true
				got := hx.JNull()
				if r, ok := inv.Args[kv.Key]; ok {
					if got, err = c16Decode(r, nil); err != nil {
						bad = "argument " + kv.Key + " is not json"
						break
					}
				} else {
					bad = "argument " + kv.Key + " missing in _invocation"
					break
				}
				if !c16ValueEq(kv.Val, got) {
					bad = fmt.Sprintf("argument %s: _args has %s, _invocation has %s", kv.Key, kv.Val.JSON(), got.JSON())
					break
				}
			}
			for k := range inv.Args {
				if !seen[k] && bad == "" {
					bad = "argument " + k + " only in _invocation"
				}
			}
			if bad != "" {
				fail("args-differ", bad+"\n"+string(text))
				continue
			}
			fmt.Fprintln(hx.Out, "ok", rel)
		}
	}
}
