package main

// C11 - fork identities are unique and job notifications reach exactly their
// owner.  Case kinds (one per line, strings hex encoded):
//
//	k <key>                         makeKeySafe
//	j <s>                           encodeJournalName.Replace
//	q <k1> <k2>                     two keys: escapes and journal tokens (oracle: distinct)
//	i <n> <part>...                 ForkId.ForkIdString of a described fork id
//	p <name>                        parseRunFilename
//	u <current> <seen>              Metadata.cache uniquifier test
//	a ...                           attempt lifecycle op sequence (c11_attempts.go)
//	t <psid> <nnodes> {<rel> <parent> <nforks> {<nchunks> <nparts> <part>...}}
//	  <nq> {<node> <fork> <chunk> <runtype> <uniq> <file>}
//	                                a pipestance skeleton and journal writers
//
// part = mode:known:srclen:keys:rangekind:rangelen:keys:idkind:index:key
// keys = count{,hexkey}
import (
	"fmt"
	"os"
	"path/filepath"
	"sort"
	"strconv"
	"strings"
	"unicode/utf8"

	"github.com/martian-lang/martian/martian/core"
	"verifharness/internal/hx"
)

func init() {
	props["c11"] = &propCmd{gen: c11Gen, impl: c11Impl, oracle: c11Oracle,
		extra: map[string]func([]string){"e2e": c11E2E}}
}

type c11Part = core.VerifForkPart

var attemptSeq int

// ------------------------------------------------------------- encoding
func c11Keys(ks []string) string {
	var b strings.Builder
	b.WriteString(strconv.Itoa(len(ks)))
	for _, k := range ks {
		b.WriteByte(',')
		b.WriteString(hx.H(k))
	}
	return b.String()
}

func c11ParseKeys(s string) []string {
	f := strings.Split(s, ",")
	n, _ := strconv.Atoi(f[0])
	ks := make([]string, 0, n)
	for _, x := range f[1:] {
		ks = append(ks, hx.U(x))
	}
	return ks
}

func b2i(b bool) int {
	if b {
		return 1
	}
	return 0
}

func c11PartStr(p c11Part) string {
	return fmt.Sprintf("%d:%d:%d:%s:%d:%d:%s:%d:%d:%s", p.Mode, b2i(p.Known), p.SrcLen,
		c11Keys(p.SrcKeys), p.RangeKind, p.RangeLen, c11Keys(p.RangeKeys), p.IdKind, p.Index, hx.H(p.Key))
}

func c11ParsePart(s string) c11Part {
	f := strings.Split(s, ":")
	at := func(i int) int { n, _ := strconv.Atoi(f[i]); return n }
	return c11Part{Mode: at(0), Known: at(1) == 1, SrcLen: at(2), SrcKeys: c11ParseKeys(f[3]),
		RangeKind: at(4), RangeLen: at(5), RangeKeys: c11ParseKeys(f[6]), IdKind: at(7), Index: at(8), Key: hx.U(f[9])}
}

// ------------------------------------------------------------ part makers
func arrS(i, n int) c11Part { return c11Part{Mode: 1, Known: true, SrcLen: n, IdKind: 0, Index: i} }
func arrV(i, n int) c11Part {
	return c11Part{Mode: 1, RangeKind: 1, RangeLen: n, IdKind: 0, Index: i}
}
func keyS(k string, ks []string) c11Part {
	return c11Part{Mode: 2, Known: true, SrcKeys: ks, IdKind: 1, Key: k}
}
func keyV(k string, ks []string) c11Part {
	return c11Part{Mode: 2, RangeKind: 2, RangeKeys: ks, IdKind: 1, Key: k}
}

// ------------------------------------------------------------- key pools
var c11Alphabet = []string{".", "/", "%", " ", "_", "-", "~", "+", ":", ";", ",", "?", "2", "E", "F", "5",
	"f", "a", "0", "\\", "\t", "\n", "\x00", "\xc3\xa9", "\xe2\x98\xba", "\xff"}

var c11Adversarial = []string{
	"a", "b", "c", "a/fork_b", "b/fork_c", "a%2Ffork_b", "b%2Ffork_c", "a%252Ffork_b",
	"a.b", "a%2Eb", "a%252Eb", "..", ".", "", " ", "0", "1", "01", "fork0", "fork1", "_", "__",
	"a/fork0", "a_fork1", "x.chnk0", "x.chnk0.u0123456789", ".u0123456789", "x.fork0.complete",
	".fork1.chnk2.errors", "%", "%%", "%2", "%2F", "%2f", "%25", "%252F", "/", "//", "a/", "/a",
	"é", "日本", "☺/☺", "a b", "a+b", "a:b", "fork_a", "fork_a/fork_b", "complete", "split_complete",
	"k\xff", "\xc3", "a\nb", "a\x00b", "~", "a;b", "a,b", "a?b", "a=b&c=d", "$HOME", "@",
}

func c11RandKey(r *hx.Rng) string {
	switch r.Intn(5) {
	case 0:
		return hx.Pick(r, c11Adversarial)
	case 1:
		n := 1 + r.Intn(4)
		var b strings.Builder
		for i := 0; i < n; i++ {
			b.WriteString(hx.Pick(r, c11Alphabet))
		}
		return b.String()
	case 2:
		// mutate an adversarial key
		k := []byte(hx.Pick(r, c11Adversarial))
		if len(k) > 0 {
			k[r.Intn(len(k))] = hx.Pick(r, c11Alphabet)[0]
		}
		return string(k)
	case 3:
		n := r.Intn(5)
		var b []byte
		for i := 0; i < n; i++ {
			switch r.Intn(3) {
			case 0:
				b = append(b, byte(r.Intn(256)))
			case 1:
				b = utf8.AppendRune(b, rune(0x80+r.Intn(0x2000)))
			default:
				b = append(b, byte(0x20+r.Intn(0x5f)))
			}
		}
		return string(b)
	default:
		return hx.Pick(r, c11Adversarial) + hx.Pick(r, c11Alphabet)
	}
}

func c11KeySet(r *hx.Rng, n int) []string {
	seen := map[string]bool{}
	var ks []string
	for tries := 0; len(ks) < n && tries < 10*n+10; tries++ {
		k := c11RandKey(r)
		if len(k) > 10 || seen[k] {
			continue
		}
		seen[k] = true
		ks = append(ks, k)
	}
	return ks
}

// ------------------------------------------------------------ fork trees
// A level of a fork family: the kind is fixed per level (the type of the
// split source), the length / key set may depend on the path above.
type c11Level struct {
	kind int // 0 static array, 1 variable array, 2 static map, 3 variable map
}

var c11Lens = []int{1, 2, 3, 9, 10, 11, 12}

// c11Family enumerates the fork ids of a random family, at most max.
// Adversarial nested key sets are used with some probability.
func c11Family(r *hx.Rng, max int) [][]c11Part {
	depth := 1 + r.Intn(3)
	levels := make([]c11Level, depth)
	for i := range levels {
		levels[i].kind = r.Intn(4)
	}
	uniform := r.Intn(3) == 0 // same range below every sibling
	adversarial := r.Intn(4) == 0
	var out [][]c11Part
	var rec func(prefix []c11Part, lvl int)
	type rng struct {
		n  int
		ks []string
	}
	uni := make([]*rng, depth)
	pick := func(lvl int, prefix []c11Part) rng {
		if uniform && uni[lvl] != nil {
			return *uni[lvl]
		}
		var x rng
		if levels[lvl].kind < 2 {
			x.n = hx.Pick(r, c11Lens)
			if lvl > 0 && x.n > 3 {
				x.n = 1 + r.Intn(3)
			}
			if r.Intn(12) == 0 {
				x.n = hx.Pick(r, []int{100, 101})
			}
		} else {
			x.ks = c11KeySet(r, 1+r.Intn(3))
			if adversarial && len(prefix) > 0 && prefix[len(prefix)-1].IdKind == 1 {
				// the pair (a, b/fork_c) vs (a/fork_b, c) and relatives
				switch prefix[len(prefix)-1].Key {
				case "a":
					x.ks = []string{"b/fork_c", "b%2Ffork_c", "b"}
				case "a/fork_b", "a%2Ffork_b":
					x.ks = []string{"c", "b"}
				}
			}
			if adversarial && lvl == 0 {
				x.ks = []string{"a", "a/fork_b", "a%2Ffork_b"}
			}
		}
		if uniform {
			uni[lvl] = &x
		}
		return x
	}
	rec = func(prefix []c11Part, lvl int) {
		if len(out) >= max {
			return
		}
		if lvl == depth {
			out = append(out, append([]c11Part(nil), prefix...))
			return
		}
		x := pick(lvl, prefix)
		switch levels[lvl].kind {
		case 0:
			for i := 0; i < x.n; i++ {
				rec(append(prefix, arrS(i, x.n)), lvl+1)
			}
		case 1:
			if lvl > 0 && r.Intn(4) == 0 {
				// an inner collection that turned out empty at run time: one
				// fork, identified by the indices above it; the levels
				// below stay undetermined
				f := append(append([]c11Part(nil), prefix...), c11Part{Mode: 1, RangeKind: 1, RangeLen: 0, IdKind: 2})
				for k := lvl + 1; k < depth; k++ {
					f = append(f, c11Part{Mode: 1, Known: true, SrcLen: 2, IdKind: 3})
				}
				out = append(out, f)
				return
			}
			for i := 0; i < x.n; i++ {
				rec(append(prefix, arrV(i, x.n)), lvl+1)
			}
		case 2:
			for _, k := range x.ks {
				rec(append(prefix, keyS(k, x.ks)), lvl+1)
			}
		default:
			for _, k := range x.ks {
				rec(append(prefix, keyV(k, x.ks)), lvl+1)
			}
		}
	}
	rec(nil, 0)
	return out
}

var c11Idents = []string{"P", "STAGE", "S1", "fork0", "fork1", "fork_a", "chnk0", "u0123456789",
	"complete", "split", "join", "_x", "A_B", "forkX", "ID", "x"}

var c11Files = []string{"complete", "errors", "assert", "progress", "log", "stdout", "stderr",
	"jobinfo", "heartbeat", "stage_defs", "outs", "alarm", "chnk5", "u0123456789", "fork0", "forkX", "split_x"}

func c11Uniq(r *hx.Rng) string {
	if r.Intn(3) == 0 {
		return ""
	}
	const h = "0123456789abcdef"
	b := make([]byte, 10)
	for i := range b {
		b[i] = h[r.Intn(16)]
	}
	return string(b)
}

type c11Query struct {
	node, fork, chunk int
	runType, uniq, file string
}
type c11Fork struct {
	nchunks int
	parts   []c11Part
}
type c11Node struct {
	rel    string
	parent int
	forks  []c11Fork
}
type c11Scenario struct {
	psid    string
	nodes   []c11Node
	queries []c11Query
}

func (s *c11Scenario) line() string {
	var b strings.Builder
	fmt.Fprintf(&b, "t %s %d", hx.H(s.psid), len(s.nodes))
	for _, n := range s.nodes {
		fmt.Fprintf(&b, " %s %d %d", hx.H(n.rel), n.parent, len(n.forks))
		for _, f := range n.forks {
			fmt.Fprintf(&b, " %d %d", f.nchunks, len(f.parts))
			for _, p := range f.parts {
				b.WriteByte(' ')
				b.WriteString(c11PartStr(p))
			}
		}
	}
	fmt.Fprintf(&b, " %d", len(s.queries))
	for _, q := range s.queries {
		fmt.Fprintf(&b, " %d %d %d %s %s %s", q.node, q.fork, q.chunk, q.runType, hx.H(q.uniq), hx.H(q.file))
	}
	return b.String()
}

func c11ParseScenario(f []string) *c11Scenario {
	pos := 1
	next := func() string { s := f[pos]; pos++; return s }
	nexti := func() int { n, _ := strconv.Atoi(next()); return n }
	s := &c11Scenario{psid: hx.U(next())}
	nn := nexti()
	for i := 0; i < nn; i++ {
		n := c11Node{rel: hx.U(next())}
		n.parent = nexti()
		nf := nexti()
		for j := 0; j < nf; j++ {
			fk := c11Fork{nchunks: nexti()}
			np := nexti()
			for k := 0; k < np; k++ {
				fk.parts = append(fk.parts, c11ParsePart(next()))
			}
			n.forks = append(n.forks, fk)
		}
		s.nodes = append(s.nodes, n)
	}
	nq := nexti()
	for i := 0; i < nq; i++ {
		q := c11Query{node: nexti(), fork: nexti(), chunk: nexti()}
		q.runType = next()
		q.uniq = hx.U(next())
		q.file = hx.U(next())
		s.queries = append(s.queries, q)
	}
	return s
}

func c11GenScenario(r *hx.Rng) *c11Scenario {
	s := &c11Scenario{psid: hx.Pick(r, []string{"ps1", "x", "a_b", "fork0", "p2"})}
	nn := 1 + r.Intn(4)
	for i := 0; i < nn; i++ {
		n := c11Node{parent: -1}
		if i > 0 && r.Bool() {
			n.parent = r.Intn(i)
		}
		base := "TOP"
		if n.parent >= 0 {
			base = s.nodes[n.parent].rel
		}
		// distinct relative ids (siblings have distinct call ids)
		for tries := 0; ; tries++ {
			n.rel = base + "." + hx.Pick(r, c11Idents)
			if tries > 20 {
				n.rel += strconv.Itoa(i)
			}
			dup := false
			for _, o := range s.nodes {
				dup = dup || o.rel == n.rel
			}
			if !dup {
				break
			}
		}
		fam := c11Family(r, 24)
		if r.Bool() {
			// forks appended by dynamic expansion are in no particular order
			for j := len(fam) - 1; j > 0; j-- {
				k := r.Intn(j + 1)
				fam[j], fam[k] = fam[k], fam[j]
			}
		}
		for _, parts := range fam {
			nch := hx.Pick(r, []int{0, 1, 1, 2, 3, 10, 11})
			if r.Intn(40) == 0 {
				nch = 101
			}
			n.forks = append(n.forks, c11Fork{nchunks: nch, parts: parts})
		}
		s.nodes = append(s.nodes, n)
	}
	for ni, n := range s.nodes {
		for fi, f := range n.forks {
			nq := 1 + r.Intn(2)
			for k := 0; k < nq; k++ {
				q := c11Query{node: ni, fork: fi, chunk: -1, uniq: c11Uniq(r), file: hx.Pick(r, c11Files)}
				switch x := r.Intn(4); {
				case x == 0:
					q.runType = "split"
				case x == 1:
					q.runType = "join"
				case f.nchunks > 0:
					q.runType = "main"
					q.chunk = r.Intn(f.nchunks)
					if r.Bool() {
						q.chunk = f.nchunks - 1
					}
				default:
					q.runType = "split"
				}
				s.queries = append(s.queries, q)
			}
		}
	}
	return s
}

// ------------------------------------------------------------------ gen
func c11Gen(tier string, r *hx.Rng) {
	w := hx.Out
	thorough := tier == "thorough"
	// keys: every 1-byte string, every string of length <= 2 over the
	// significant alphabet, the adversarial pool
	fmt.Fprintln(w, "k -")
	for a := 0; a < 256; a++ {
		fmt.Fprintf(w, "k %02x\n", a)
		fmt.Fprintf(w, "j %02x\n", a)
	}
	for _, a := range c11Alphabet {
		for _, b := range c11Alphabet {
			fmt.Fprintf(w, "k %s\n", hx.H(a+b))
			fmt.Fprintf(w, "j %s\n", hx.H(a+b))
			if thorough {
				for _, c := range c11Alphabet {
					fmt.Fprintf(w, "k %s\n", hx.H(a+b+c))
				}
			}
		}
	}
	for _, a := range c11Adversarial {
		fmt.Fprintf(w, "k %s\n", hx.H(a))
		fmt.Fprintf(w, "j %s\n", hx.H(a))
		for _, b := range c11Adversarial {
			fmt.Fprintf(w, "q %s %s\n", hx.H(a), hx.H(b))
		}
	}
	nr := 3000
	if thorough {
		nr = 100000
	}
	for i := 0; i < nr; i++ {
		fmt.Fprintf(w, "k %s\n", hx.H(c11RandKey(r)))
		fmt.Fprintf(w, "j %s\n", hx.H(c11RandKey(r)+hx.Pick(r, c11Adversarial)))
		fmt.Fprintf(w, "q %s %s\n", hx.H(c11RandKey(r)), hx.H(c11RandKey(r)))
	}
	// fork ids: every list of up to 3 parts over a menu (includes error shapes)
	ks := []string{"a", "a/fork_b", "b.c"}
	menu := []c11Part{
		arrS(0, 1), arrS(0, 2), arrS(1, 2), arrS(9, 10), arrS(3, 11), arrS(0, 11), arrS(100, 101),
		arrV(0, 1), arrV(0, 3), arrV(2, 3), arrV(10, 11),
		keyS("a", ks), keyS("a/fork_b", ks), keyV("b.c", ks), keyV("zz", ks), keyS("", []string{""}),
		{Mode: 1, Known: true, SrcLen: 0, IdKind: 2},         // empty range
		{Mode: 1, RangeKind: 1, RangeLen: 0, IdKind: 2},      // empty dynamic range
		{Mode: 1, Known: true, SrcLen: 2, IdKind: 3},         // undetermined
		{Mode: 0, Known: true, IdKind: 0},                    // single call source
		{Mode: 1, Known: true, SrcLen: 2, IdKind: 0, Index: 5}, // out of range
		{Mode: 2, Known: true, SrcKeys: ks, IdKind: 0, Index: 0}, // mode mismatch
		{Mode: 1, IdKind: 0, Index: 0},                       // no range at all
	}
	var rec func(prefix []c11Part, left int)
	rec = func(prefix []c11Part, left int) {
		var b strings.Builder
		fmt.Fprintf(&b, "i %d", len(prefix))
		for _, p := range prefix {
			b.WriteByte(' ')
			b.WriteString(c11PartStr(p))
		}
		fmt.Fprintln(w, b.String())
		if left == 0 {
			return
		}
		for _, p := range menu {
			rec(append(prefix, p), left-1)
		}
	}
	rec(nil, 3)
	// array lengths crossing decimal widths, single part and nested
	for _, n := range []int{9, 10, 11, 99, 100, 101, 999, 1000, 1001, 9999, 10000, 10001, 99999, 100000, 100001, 999999, 1000000, 1000001, 10000000} {
		for _, i := range []int{0, 1, 9, 10, n / 2, n - 1} {
			if i < n {
				fmt.Fprintf(w, "i 1 %s\n", c11PartStr(arrS(i, n)))
				fmt.Fprintf(w, "i 2 %s %s\n", c11PartStr(arrS(i, n)), c11PartStr(arrS(1, 2)))
				fmt.Fprintf(w, "i 2 %s %s\n", c11PartStr(arrS(1, 2)), c11PartStr(arrV(i, n)))
				fmt.Fprintf(w, "i 2 %s %s\n", c11PartStr(keyS("a", ks)), c11PartStr(arrV(i, n)))
			}
		}
	}
	// journal names for the parser: well formed ones come from the scenarios;
	// here malformed and adversarial names
	pieces := []string{".fork", "fork", "0", "1", "_a", ".", "..", ".chnk", "chnk", "3", "03", ".u", "u",
		"0123456789", "abcdef0123", "ABCDEF0123", "012345678", ".complete", "complete", "split_", "P", "P.S",
		"%2F", "%252F", "%2E", "-", "+1", "x"}
	np := 6000
	if thorough {
		np = 200000
	}
	for i := 0; i < np; i++ {
		var b strings.Builder
		if i%2 == 0 {
			n := 1 + r.Intn(9)
			for j := 0; j < n; j++ {
				b.WriteString(hx.Pick(r, pieces))
			}
		} else {
			// structured: mostly well formed, with local corruptions
			opt := func(p int, s string) string {
				if r.Intn(p) == 0 {
					return s
				}
				return ""
			}
			b.WriteString(hx.Pick(r, []string{"P", "P.S", "TOP.fork0", "TOP.forkX.S", "A.fork1.chnk0.B", "", "x.fork_a.u0123456789.y"}))
			b.WriteString(hx.Pick(r, []string{".fork", ".fork", ".fork", ".fork", "fork", ".Fork", ".fork.", ".forkfork"}))
			b.WriteString(hx.Pick(r, []string{"0", "1", "03", "12", "_a", "_a%252Fb", "1_fork0", "0%2Ffork_x", "_", "-0", "+1", "", "_%2E", "x"}))
			b.WriteString(opt(2, hx.Pick(r, []string{".chnk0", ".chnk07", ".chnk12", ".chnk", ".chnkx", ".chnk1x", ".chnk999999999999", ".chunk1"})))
			b.WriteString(opt(2, hx.Pick(r, []string{".u0123456789", ".uabcdef0123", ".u012345678", ".u01234567890", ".uABCDEF0123", ".u", ".u012345678g"})))
			b.WriteString(hx.Pick(r, []string{".", ".", ".", "", ".."}))
			b.WriteString(hx.Pick(r, []string{"complete", "errors", "split_complete", "join_errors", "progress", "", "a.b", "chnk3", "u0123456789", "fork0", ".fork1.x", "chnk3.log", "u0123456789.log"}))
		}
		fmt.Fprintf(w, "p %s\n", hx.H(b.String()))
	}
	for _, cur := range []string{"", "0123456789", "abcdef0123"} {
		for _, seen := range []string{"", "0123456789", "abcdef0123", "012345678"} {
			fmt.Fprintf(w, "u %s %s\n", hx.H(cur), hx.H(seen))
		}
	}
	na := 500
	if thorough {
		na = 8000
	}
	for i := 0; i < na; i++ {
		fmt.Fprintln(w, c11GenAttempt(r))
	}
	ns := 400
	if thorough {
		ns = 12000
	}
	for i := 0; i < ns; i++ {
		fmt.Fprintln(w, c11GenScenario(r).line())
	}
}

// ----------------------------------------------------------------- impl
type c11Built struct {
	tree   *core.VerifTree
	forkOK [][]bool
}

func c11Build(s *c11Scenario) *c11Built {
	t := core.VerifNewTree(s.psid, "/nonexistent/verif/"+s.psid)
	b := &c11Built{tree: t}
	for _, n := range s.nodes {
		ni := t.AddNode(n.parent, n.rel)
		var oks []bool
		for _, f := range n.forks {
			oks = append(oks, t.AddFork(ni, f.parts, f.nchunks))
		}
		b.forkOK = append(b.forkOK, oks)
	}
	return b
}

type c11Routed struct {
	name                string
	node, fork, chunk   int
	uniq, state         string
	target              int
	err                 bool
}

func c11Run(s *c11Scenario, b *c11Built, scratch string) []c11Routed {
	var res []c11Routed
	for _, q := range s.queries {
		name, err := b.tree.JournalFile(scratch, q.node, q.fork, q.chunk, q.runType, q.uniq, q.file)
		if err != nil {
			res = append(res, c11Routed{err: true})
			continue
		}
		x := c11Routed{name: name}
		x.node, x.fork, x.chunk, x.uniq, x.state, x.target = b.tree.Route(name)
		res = append(res, x)
	}
	return res
}

func c11Scratch(args []string) string {
	d := os.TempDir()
	if len(args) > 0 {
		d = args[0]
	}
	d = filepath.Join(d, fmt.Sprintf("c11journal%d", os.Getpid()))
	if err := os.MkdirAll(d, 0o755); err != nil {
		panic(err)
	}
	return d
}

func c11Impl(args []string) {
	scratch := c11Scratch(args)
	defer os.RemoveAll(scratch)
	w := hx.Out
	hx.Lines(os.Stdin, func(f []string) {
		switch f[0] {
		case "k":
			fmt.Fprintln(w, hx.H(core.VerifMakeKeySafe(hx.U(f[1]))))
		case "j":
			fmt.Fprintln(w, hx.H(core.VerifEncodeJournalName(hx.U(f[1]))))
		case "q":
			a, b := hx.U(f[1]), hx.U(f[2])
			fmt.Fprintln(w, hx.H(core.VerifMakeKeySafe(a)), hx.H(core.VerifMakeKeySafe(b)),
				hx.H(core.VerifEncodeJournalName("fork_"+core.VerifMakeKeySafe(a))),
				hx.H(core.VerifEncodeJournalName("fork_"+core.VerifMakeKeySafe(b))))
		case "i":
			n, _ := strconv.Atoi(f[1])
			parts := make([]c11Part, n)
			for i := range parts {
				parts[i] = c11ParsePart(f[2+i])
			}
			s, kind := core.VerifForkIdString(parts)
			if kind == 0 {
				fmt.Fprintln(w, "ok", hx.H(s))
			} else {
				fmt.Fprintln(w, "err")
			}
		case "p":
			fq, idx, chunk, uniq, state := core.VerifParseRunFilename(hx.U(f[1]))
			if fq == "" {
				fmt.Fprintln(w, "none")
			} else {
				fmt.Fprintln(w, hx.H(fq), hx.H(idx), chunk, hx.H(uniq), hx.H(state))
			}
		case "u":
			fmt.Fprintln(w, b2i(core.VerifUniquifierAccepted(hx.U(f[1]), hx.U(f[2]))))
		case "a":
			attemptSeq++
			o, _ := c11RunAttempt(c11ParseAttempt(f), scratch, attemptSeq)
			fmt.Fprintln(w, o)
		case "t":
			s := c11ParseScenario(f)
			b := c11Build(s)
			var sb strings.Builder
			for ni, n := range s.nodes {
				for fi := range n.forks {
					if !b.forkOK[ni][fi] {
						sb.WriteString("E ")
						continue
					}
					id, _, _ := b.tree.ForkNames(ni, countOK(b.forkOK[ni], fi))
					sb.WriteString(hx.H(id))
					sb.WriteByte(' ')
				}
			}
			for _, x := range c11Run(c11OnlyOK(s, b), b, scratch) {
				if x.err {
					sb.WriteString("| toolong ")
					continue
				}
				fmt.Fprintf(&sb, "| %s %d %d %d %s %s %d ", hx.H(x.name), x.node, x.fork, x.chunk, hx.H(x.uniq), hx.H(x.state), x.target)
			}
			fmt.Fprintln(w, strings.TrimSpace(sb.String()))
		default:
			fmt.Fprintln(w, "?")
		}
	})
}

// The generator only emits families whose ids are well formed, so every
// AddFork succeeds; these two helpers keep impl total if one does not.
func countOK(oks []bool, i int) int {
	n := 0
	for _, ok := range oks[:i] {
		if ok {
			n++
		}
	}
	return n
}

func c11OnlyOK(s *c11Scenario, b *c11Built) *c11Scenario {
	all := true
	for _, oks := range b.forkOK {
		for _, ok := range oks {
			all = all && ok
		}
	}
	if all {
		return s
	}
	c := *s
	c.queries = nil
	return &c
}

// --------------------------------------------------------------- oracle
// The property read directly on the implementation:
//   - distinct forks of a node have distinct directories and distinct
//     journal tokens (fqnames); chunks of a fork have distinct directories;
//   - the journal file a job writes is attributed by the routing of
//     refreshState to exactly the node, fork, chunk, uniquifier and metadata
//     file of the writer;
//   - distinct keys have distinct safe forms.
func c11Oracle(args []string) {
	scratch := c11Scratch(args)
	defer os.RemoveAll(scratch)
	w := hx.Out
	hx.Lines(os.Stdin, func(f []string) {
		switch f[0] {
		case "q":
			a, b := hx.U(f[1]), hx.U(f[2])
			if a == b {
				fmt.Fprintln(w, "skip")
				return
			}
			ea, eb := core.VerifMakeKeySafe(a), core.VerifMakeKeySafe(b)
			switch {
			case ea == eb:
				fmt.Fprintln(w, "FAIL escape_collision", hx.H(a), hx.H(b), "both", hx.H(ea))
			case core.VerifEncodeJournalName("fork_"+ea) == core.VerifEncodeJournalName("fork_"+eb):
				fmt.Fprintln(w, "FAIL journal_collision", hx.H(a), hx.H(b))
			case strings.ContainsAny(ea, "/\x00") || strings.Contains(core.VerifEncodeJournalName(ea), "."):
				fmt.Fprintln(w, "FAIL unsafe_name", hx.H(a), hx.H(ea))
			default:
				fmt.Fprintln(w, "ok")
			}
		case "a":
			attemptSeq++
			o, v := c11RunAttempt(c11ParseAttempt(f), scratch, attemptSeq)
			switch {
			case v != "":
				fmt.Fprintln(w, "FAIL", v)
			case strings.Contains(o, "err"):
				fmt.Fprintln(w, "FAIL attempt_ops_error", o)
			default:
				fmt.Fprintln(w, "ok")
			}
		case "t":
			s := c11ParseScenario(f)
			b := c11Build(s)
			fmt.Fprintln(w, c11Judge(s, b, scratch))
		default:
			fmt.Fprintln(w, "skip")
		}
	})
}

func c11DescribeFork(f c11Fork) string {
	var parts []string
	for _, p := range f.parts {
		switch p.IdKind {
		case 0:
			kind := "s"
			if !p.Known {
				kind = "v"
			}
			n := p.SrcLen
			if !p.Known {
				n = p.RangeLen
			}
			parts = append(parts, fmt.Sprintf("%d/%d%s", p.Index, n, kind))
		case 1:
			parts = append(parts, fmt.Sprintf("key:%s", hx.H(p.Key)))
		default:
			parts = append(parts, "?")
		}
	}
	return "[" + strings.Join(parts, ",") + "]"
}

func c11Judge(s *c11Scenario, b *c11Built, scratch string) string {
	for ni, n := range s.nodes {
		dirs := map[string]int{}
		fqs := map[string]int{}
		for fi, f := range n.forks {
			if !b.forkOK[ni][fi] {
				return fmt.Sprintf("FAIL fork_id_error node=%s fork=%s", hx.H(n.rel), c11DescribeFork(f))
			}
			id, dir, fq := b.tree.ForkNames(ni, fi)
			if id == "" || strings.HasPrefix(id, "/") || strings.Contains(id, "//") {
				return fmt.Sprintf("FAIL bad_dir_name node=%s fork=%s id=%s", hx.H(n.rel), c11DescribeFork(f), hx.H(id))
			}
			if o, dup := dirs[dir]; dup {
				return fmt.Sprintf("FAIL dir_collision node=%s forks=%s,%s dir=%s", hx.H(n.rel),
					c11DescribeFork(n.forks[o]), c11DescribeFork(f), hx.H(dir))
			}
			dirs[dir] = fi
			if o, dup := fqs[fq]; dup {
				return fmt.Sprintf("FAIL journal_collision node=%s forks=%s,%s fqname=%s", hx.H(n.rel),
					c11DescribeFork(n.forks[o]), c11DescribeFork(f), hx.H(fq))
			}
			fqs[fq] = fi
			cd := map[string]bool{}
			for c := 0; c < f.nchunks; c++ {
				d, cfq := b.tree.ChunkNames(ni, fi, c)
				if cd[d] || cd[cfq] {
					return fmt.Sprintf("FAIL chunk_collision node=%s fork=%s chunk=%d", hx.H(n.rel), c11DescribeFork(f), c)
				}
				cd[d], cd[cfq] = true, true
			}
		}
	}
	names := map[string]int{}
	res := c11Run(s, b, scratch)
	for qi, x := range res {
		q := s.queries[qi]
		who := fmt.Sprintf("node=%s fork=%s chunk=%d run=%s uniq=%s file=%s", hx.H(s.nodes[q.node].rel),
			c11DescribeFork(s.nodes[q.node].forks[q.fork]), q.chunk, q.runType, hx.H(q.uniq), hx.H(q.file))
		if x.err {
			continue // name too long for the file system: the documented restriction
		}
		if o, dup := names[x.name]; dup {
			oq := s.queries[o]
			if oq.node != q.node || oq.fork != q.fork || oq.chunk != q.chunk || oq.runType != q.runType || oq.uniq != q.uniq || oq.file != q.file {
				return fmt.Sprintf("FAIL journal_collision two writers share %s: %s", hx.H(x.name), who)
			}
		}
		names[x.name] = qi
		wantState := q.file
		wantTarget := 3
		switch q.runType {
		case "split":
			wantState, wantTarget = "split_"+q.file, 1
		case "join":
			wantState, wantTarget = "join_"+q.file, 2
		}
		switch {
		case x.node == -1:
			return fmt.Sprintf("FAIL unrouted name=%s %s", hx.H(x.name), who)
		case x.node != q.node:
			return fmt.Sprintf("FAIL misroute_node name=%s %s got node %d", hx.H(x.name), who, x.node)
		case x.fork != q.fork:
			return fmt.Sprintf("FAIL misroute_fork name=%s %s got fork %d", hx.H(x.name), who, x.fork)
		case x.chunk != q.chunk:
			return fmt.Sprintf("FAIL misroute_chunk name=%s %s got chunk %d", hx.H(x.name), who, x.chunk)
		case x.uniq != q.uniq:
			return fmt.Sprintf("FAIL misroute_attempt name=%s %s got uniq %s", hx.H(x.name), who, hx.H(x.uniq))
		case x.state != wantState || x.target != wantTarget:
			return fmt.Sprintf("FAIL misroute_file name=%s %s got state %s target %d", hx.H(x.name), who, hx.H(x.state), x.target)
		}
	}
	return "ok"
}

// sorted keys helper for the end-to-end runs
func sortedKeys(m map[string]interface{}) []string {
	var ks []string
	for k := range m {
		ks = append(ks, k)
	}
	sort.Strings(ks)
	return ks
}
