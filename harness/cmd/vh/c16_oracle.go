// C16 oracle: the property read directly on the implementation.
//
// For a well-typed invocation (wf=1) the complete, file based path is run:
//
//	InvocationData.BuildCallSource -> InvocationDataFromSource -> BuildCallSource
//
// and checked: both conversions succeed; call, include, split status and
// every argument value (JSON values; floats compared as float64, integers
// exactly) come back unchanged; the text is stable; the text compiles as a
// call of the callable; and in the built Ast an object is a struct literal
// exactly where the declared type (through arrays, typed maps and the split
// collection) is a struct.
package main

import (
	"encoding/json"
	"fmt"
	"math/big"
	"os"
	"path/filepath"
	"regexp"
	"sort"
	"strconv"
	"strings"

	"verifharness/internal/hx"

	"github.com/martian-lang/martian/martian/core"
	"github.com/martian-lang/martian/martian/syntax"
)

func c16NumEq(a, b hx.JV) bool {
	if a.E == 0 && b.E == 0 {
		return a.M.Cmp(b.M) == 0
	}
	fa, e1 := strconv.ParseFloat(fmt.Sprintf("%se%d", a.M, a.E), 64)
	fb, e2 := strconv.ParseFloat(fmt.Sprintf("%se%d", b.M, b.E), 64)
	return e1 == nil && e2 == nil && fa == fb
}

// c16ValueEq: equality of JSON values (objects as maps).
func c16ValueEq(a, b hx.JV) bool {
	if a.K != b.K {
		return false
	}
	switch a.K {
	case '#':
		return c16NumEq(a, b)
	case 's':
		return a.S == b.S
	case '[':
		if len(a.A) != len(b.A) {
			return false
		}
		for i := range a.A {
			if !c16ValueEq(a.A[i], b.A[i]) {
				return false
			}
		}
		return true
	case '{':
		ca, cb := a.Canon(), b.Canon()
		if len(ca.O) != len(cb.O) {
			return false
		}
		for i := range ca.O {
			if ca.O[i].Key != cb.O[i].Key || !c16ValueEq(ca.O[i].Val, cb.O[i].Val) {
				return false
			}
		}
		return true
	}
	return true
}

var (
	c16SurrogateRe = regexp.MustCompile(`(?i)\\ud[89ab][0-9a-f]{2}\\ud[c-f][0-9a-f]{2}`)
	c16BigIntRe    = regexp.MustCompile(`(^|[^0-9.eE+-])-?[0-9]{19,}($|[^0-9.eE])`)
)

// c16InputFamily names the input family of a failing case (the narrow class
// of known_findings.json), or "" if the input is unremarkable.
func c16InputFamily(invText string) string {
	switch {
	case strings.Contains(strings.ReplaceAll(invText, `\\`, ""), `\/`):
		return "json-escape-solidus"
	case c16SurrogateRe.MatchString(invText):
		return "json-escape-surrogate-pair"
	}
	for _, m := range c16BigIntRe.FindAllString(invText, -1) {
		d := strings.TrimFunc(m, func(r rune) bool { return (r < '0' || r > '9') && r != '-' })
		if z, ok := new(big.Int).SetString(d, 10); ok && !z.IsInt64() {
			return "integer-literal-over-int64"
		}
	}
	return ""
}

type c16KindErr struct{ path, what string }

// c16Kinds checks the struct-versus-map decision of every MapExp of e
// against the declared type (an independent reading through
// TypeLookup.Get, not the code of fixExpressionTypes).
func c16Kinds(e syntax.Exp, tid syntax.TypeId, lookup *syntax.TypeLookup, path string, errs *[]c16KindErr) {
	switch e := e.(type) {
	case *syntax.ArrayExp:
		if tid.ArrayDim == 0 {
			*errs = append(*errs, c16KindErr{path, "array where " + tid.String() + " is declared (generator error)"})
			return
		}
		et := tid
		et.ArrayDim--
		for i, v := range e.Value {
			c16Kinds(v, et, lookup, fmt.Sprintf("%s[%d]", path, i), errs)
		}
	case *syntax.MapExp:
		if tid.ArrayDim != 0 {
			*errs = append(*errs, c16KindErr{path, "object where " + tid.String() + " is declared (generator error)"})
			return
		}
		if tid.MapDim != 0 {
			if e.Kind != syntax.KindMap {
				*errs = append(*errs, c16KindErr{path, "typed map " + tid.String() + " became a struct literal"})
			}
			et := syntax.TypeId{Tname: tid.Tname, ArrayDim: tid.MapDim - 1}
			for k, v := range e.Value {
				c16Kinds(v, et, lookup, path+"."+k, errs)
			}
			return
		}
		if st, ok := lookup.Get(tid).(*syntax.StructType); ok {
			if e.Kind != syntax.KindStruct {
				*errs = append(*errs, c16KindErr{path, "value of struct type " + tid.String() + " stayed a map literal"})
			}
			for k, v := range e.Value {
				var m *syntax.StructMember
				for _, sm := range st.Members {
					if sm.Id == k {
						m = sm
					}
				}
				if m == nil {
					*errs = append(*errs, c16KindErr{path, "key " + k + " is not a member (generator error)"})
					continue
				}
				c16Kinds(v, m.Tname, lookup, path+"."+k, errs)
			}
			return
		}
		c16NoStruct(e, tid, path, errs)
	}
}

// below an untyped map nothing is a struct literal
func c16NoStruct(e syntax.Exp, tid syntax.TypeId, path string, errs *[]c16KindErr) {
	switch e := e.(type) {
	case *syntax.ArrayExp:
		for i, v := range e.Value {
			c16NoStruct(v, tid, fmt.Sprintf("%s[%d]", path, i), errs)
		}
	case *syntax.MapExp:
		if e.Kind != syntax.KindMap {
			*errs = append(*errs, c16KindErr{path, "object under " + tid.String() + " became a struct literal"})
		}
		for k, v := range e.Value {
			c16NoStruct(v, tid, path+"."+k, errs)
		}
	}
}

func c16SplitType(t syntax.TypeId, v syntax.Exp) syntax.TypeId {
	switch v.(type) {
	case *syntax.ArrayExp:
		t.ArrayDim++
	case *syntax.MapExp:
		if t.MapDim == 0 {
			t.MapDim = t.ArrayDim + 1
			t.ArrayDim = 0
		}
	}
	return t
}

// c16Assembled turns the objects of a json value into core.MarshalerMap
// values (what the resolver builds for struct and map literals), leaving
// everything else raw.
func c16Assembled(raw json.RawMessage) json.Marshaler {
	var obj map[string]json.RawMessage
	if len(raw) > 0 && strings.TrimLeft(string(raw), " \t\r\n")[0] == '{' && json.Unmarshal(raw, &obj) == nil && obj != nil {
		m := make(core.MarshalerMap, len(obj))
		for k, v := range obj {
			m[k] = c16Assembled(v)
		}
		return m
	}
	return raw
}

func c16Fail(class, family, detail string) {
	// the input family narrows only the classes it can explain
	if family != "" && (class == "build-error" || class == "reverse-error" || class == "args-differ") {
		class = class + ":" + family
	}
	fmt.Fprintln(hx.Out, "FAIL", class, hx.H(detail))
}

func c16Oracle(args []string) {
	env := c16NewEnv(args)
	mro := []string{env.dir}
	hx.Lines(os.Stdin, func(f []string) {
		if f[0] != "v" || f[1] != "1" {
			fmt.Fprintln(hx.Out, "skip")
			return
		}
		comp := env.compiled(hx.U(f[3]), hx.U(f[4]))
		text := hx.U(f[5])
		family := c16InputFamily(text)
		var inv core.InvocationData
		dec := json.NewDecoder(strings.NewReader(text))
		dec.UseNumber()
		if err := dec.Decode(&inv); err != nil {
			fmt.Fprintln(hx.Out, "skip")
			return
		}
		src1, err := inv.BuildCallSource(mro)
		if err != nil {
			c16Fail("build-error", family, err.Error())
			return
		}
		inv2, err := core.InvocationDataFromSource([]byte(src1), mro)
		if err != nil {
			c16Fail("reverse-error", family, err.Error()+"\n"+src1)
			return
		}
		if inv2.Call != inv.Call || inv2.Include != inv.Include {
			c16Fail("call-differs", family, fmt.Sprintf("%q %q / %q %q", inv.Call, inv.Include, inv2.Call, inv2.Include))
			return
		}
		s1 := append([]string{}, inv.SplitArgs...)
		s2 := append([]string{}, inv2.SplitArgs...)
		sort.Strings(s1)
		sort.Strings(s2)
		if strings.Join(s1, ",") != strings.Join(s2, ",") {
			c16Fail("split-differs", family, fmt.Sprintf("%v / %v", s1, s2))
			return
		}
		callable := comp.ast.Callables.Table[inv.Call]
		for _, p := range callable.GetInParams().List {
			a := hx.JNull()
			if raw, ok := inv.Args[p.GetId()]; ok {
				if a, err = c16Decode(raw, nil); err != nil {
					fmt.Fprintln(hx.Out, "skip")
					return
				}
			}
			raw2, ok := inv2.Args[p.GetId()]
			if !ok {
				c16Fail("args-differ", family, "argument "+p.GetId()+" missing after the round trip")
				return
			}
			b, err := c16Decode(raw2, nil)
			if err != nil || !c16ValueEq(a, b) {
				c16Fail("args-differ", family, fmt.Sprintf("argument %s: %s became %s", p.GetId(), a.JSON(), string(raw2)))
				return
			}
		}
		src2, err := inv2.BuildCallSource(mro)
		if err != nil || src2 != src1 {
			c16Fail("text-not-stable", family, fmt.Sprintf("%v\n%s\n---\n%s", err, src1, src2))
			return
		}
		if _, _, _, err := syntax.ParseSourceBytes([]byte(src1), filepath.Join(env.dir, "__call.mro"), mro, false); err != nil {
			c16Fail("not-compiling", family, err.Error()+"\n"+src1)
			return
		}
		ast, err := inv.BuildCallAst(mro)
		if err != nil {
			c16Fail("build-error", family, err.Error())
			return
		}
		var errs []c16KindErr
		lookup := &comp.ast.TypeTable
		for _, b := range ast.Call.Bindings.List {
			e := b.Exp
			t := b.Tname
			if s, ok := e.(*syntax.SplitExp); ok {
				t = c16SplitType(t, s.Value)
				e = s.Value
			}
			c16Kinds(e, t, lookup, b.Id, &errs)
		}
		if len(errs) > 0 {
			c16Fail("struct-map-decision", family, fmt.Sprintf("%s: %s\n%s", errs[0].path, errs[0].what, src1))
			return
		}
		// mrp's resolver hands BuildCallSource assembled values
		// (MarshalerMap) rather than raw json; the same values given that
		// way must produce the same call.
		mm := make(core.MarshalerMap, len(inv.Args))
		isSplit := map[string]bool{}
		for _, id := range inv.SplitArgs {
			isSplit[id] = true
		}
		for k, v := range inv.Args {
			if isSplit[k] {
				mm[k] = v
			} else {
				mm[k] = c16Assembled(v)
			}
		}
		src3, err := core.BuildCallSource(inv.Call, mm, inv.SplitArgs, callable, lookup, mro)
		if err != nil || src3 != src1 {
			c16Fail("assembled-args-differ", family, fmt.Sprintf("%v\n%s\n--- from assembled (MarshalerMap) arguments:\n%s", err, src1, src3))
			return
		}
		fmt.Fprintln(hx.Out, "ok")
	})
}
