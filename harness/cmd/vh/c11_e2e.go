package main

// End-to-end tier of C11: real mrp pipestances whose mapped calls range over
// adversarial key sets, array lengths and nestings; each must complete and
// return exactly the expected keys / values.
//
//	vh c11 e2e <dir with bin/mrp, bin/mrjob, adapters, jobmanagers> <seed> <n>
//
// prints one line per pipestance:  E2E ok <name>   or
// E2E <class> <hex of the mro source> <detail>

import (
	"context"
	"net/url"
	"encoding/json"
	"fmt"
	"os"
	"os/exec"
	"path/filepath"
	"reflect"
	"sort"
	"strconv"
	"strings"
	"time"
	"unicode/utf8"

	"verifharness/internal/hx"
)

const c11StageDefs = `
stage ECHO(
    in  string what,
    out string result,
    src py     "stages/echo",
)

stage CHUNKY(
    in  string what,
    in  int    n,
    out string result,
    src py     "stages/chunky",
) split (
    in  int    i,
    out string piece,
)

stage PAIR(
    in  string a,
    in  string b,
    out string result,
    src py     "stages/pair",
)

stage GENMAP(
    in  string[]    keys,
    out map<string> m,
    src py          "stages/genmap",
)

stage GENARR(
    in  int      n,
    out string[] a,
    src py       "stages/genarr",
)
`

var c11StageCode = map[string]string{
	"echo": "def main(args, outs):\n    outs.result = args.what\n",
	"chunky": "def split(args):\n    return {'chunks': [{'i': i} for i in range(args.n)]}\n\n" +
		"def main(args, outs):\n    outs.piece = '%s#%d' % (args.what, args.i)\n\n" +
		"def join(args, outs, chunk_defs, chunk_outs):\n" +
		"    ok = all(c.piece == '%s#%d' % (args.what, i) for i, c in enumerate(chunk_outs))\n" +
		"    outs.result = args.what if ok and len(chunk_outs) == args.n else 'BAD'\n",
	"pair":   "def main(args, outs):\n    outs.result = args.a + '|' + args.b\n",
	"genmap": "def main(args, outs):\n    outs.m = dict((k, 'v:' + k) for k in args.keys)\n",
	"genarr": "def main(args, outs):\n    outs.a = ['e%d' % i for i in range(args.n)]\n",
}

func mroString(s string) string {
	b, _ := json.Marshal(s)
	// json.Marshal escapes <, >, & and U+2028/9 as \uXXXX, which the mro
	// parser accepts; everything else is plain JSON string syntax.
	return string(b)
}

func mroMap(keys []string, val func(k string) string) string {
	var b strings.Builder
	b.WriteString("{\n")
	for _, k := range keys {
		fmt.Fprintf(&b, "        %s: %s,\n", mroString(k), val(k))
	}
	b.WriteString("    }")
	return b.String()
}

// keys usable in mro source and as JSON object keys: valid UTF-8, no NUL
func c11E2EKeys(r *hx.Rng, n int) []string {
	seen := map[string]bool{}
	var ks []string
	for tries := 0; len(ks) < n && tries < 200; tries++ {
		k := c11RandKey(r)
		// mrp expands $VAR in the invocation source (os.ExpandEnv, a feature),
		// so a dollar sign cannot be written literally there
		if !utf8.ValidString(k) || strings.ContainsAny(k, "\x00$") || len(k) > 12 || seen[k] {
			continue
		}
		seen[k] = true
		ks = append(ks, k)
	}
	return ks
}

type c11Pipe struct {
	name   string
	mro    string
	expect interface{}
	// relative fork directory of a stage -> the result its _outs must hold
	dirs map[string]string
	// stage directory -> the results its fork directories must hold (any names)
	results map[string][]string
}

func forkDirName(k string) string { return "fork_" + url.PathEscape(k) }

func strMap(keys []string, val func(string) interface{}) map[string]interface{} {
	m := map[string]interface{}{}
	for _, k := range keys {
		m[k] = val(k)
	}
	return m
}

func c11GenPipe(r *hx.Rng, i int) c11Pipe {
	shape := i % 8
	keys := c11E2EKeys(r, 2+r.Intn(3))
	adversarial := [][]string{{"a", "a/fork_b"}, {"b/fork_c", "c", "b"}}
	switch shape {
	case 0: // static map call over adversarial keys
		return c11Pipe{"static_map", c11StageDefs + fmt.Sprintf(`
pipeline P(
    in  map<string> m,
    out map<string> r,
)
{
    map call ECHO(
        what = split self.m,
    )

    return (
        r = ECHO.result,
    )
}

call P(
    m = %s,
)
`, mroMap(keys, func(k string) string { return mroString("v:" + k) })),
			map[string]interface{}{"r": strMap(keys, func(k string) interface{} { return "v:" + k })}, nil, nil}
	case 1: // dynamic map call (keys known only at run time), chunked stage
		n := hx.Pick(r, []int{1, 2, 10, 11})
		ks, _ := json.Marshal(keys)
		return c11Pipe{"dynamic_map_chunks", c11StageDefs + fmt.Sprintf(`
pipeline P(
    in  string[]    keys,
    out map<string> r,
)
{
    call GENMAP(
        keys = self.keys,
    )

    map call CHUNKY(
        what = split GENMAP.m,
        n    = %d,
    )

    return (
        r = CHUNKY.result,
    )
}

call P(
    keys = %s,
)
`, n, ks), map[string]interface{}{"r": strMap(keys, func(k string) interface{} { return "v:" + k })}, nil, nil}
	case 2: // dynamic outer map x static inner map: the (a, b/fork_c) / (a/fork_b, c) family
		return c11Nested("nested_map_adversarial", adversarial[0], adversarial[1])
	case 3: // array of maps (static): array part followed by a map part
		n := 2 + r.Intn(2)
		var rows []string
		var exp []interface{}
		for j := 0; j < n; j++ {
			jj := j
			rows = append(rows, strings.ReplaceAll(mroMap(keys, func(k string) string { return mroString(strconv.Itoa(jj) + "|" + k) }), "\n", "\n    "))
			exp = append(exp, strMap(keys, func(k string) interface{} { return strconv.Itoa(jj) + "|" + k }))
		}
		return c11Pipe{"static_array_of_maps", c11StageDefs + fmt.Sprintf(`
pipeline INNER(
    in  map<string> m,
    out map<string> r,
)
{
    map call ECHO(
        what = split self.m,
    )

    return (
        r = ECHO.result,
    )
}

pipeline P(
    in  map<string>[] ms,
    out map<string>[] r,
)
{
    map call INNER(
        m = split self.ms,
    )

    return (
        r = INNER.r,
    )
}

call P(
    ms = [
        %s,
    ],
)
`, strings.Join(rows, ",\n        ")), map[string]interface{}{"r": exp}, nil, nil}
	case 4: // static array crossing a decimal width
		n := hx.Pick(r, []int{9, 10, 11, 12})
		var items []string
		var exp []interface{}
		for j := 0; j < n; j++ {
			items = append(items, mroString("e"+strconv.Itoa(j)))
			exp = append(exp, "e"+strconv.Itoa(j))
		}
		return c11Pipe{"static_array", c11StageDefs + fmt.Sprintf(`
pipeline P(
    in  string[] a,
    out string[] r,
)
{
    map call ECHO(
        what = split self.a,
    )

    return (
        r = ECHO.result,
    )
}

call P(
    a = [%s],
)
`, strings.Join(items, ", ")), map[string]interface{}{"r": exp}, nil, nil}
	case 5: // dynamic array crossing a decimal width
		n := hx.Pick(r, []int{2, 10, 11, 12})
		var exp []interface{}
		for j := 0; j < n; j++ {
			exp = append(exp, "e"+strconv.Itoa(j))
		}
		return c11Pipe{"dynamic_array", c11StageDefs + fmt.Sprintf(`
pipeline P(
    in  int      n,
    out string[] r,
)
{
    call GENARR(
        n = self.n,
    )

    map call ECHO(
        what = split GENARR.a,
    )

    return (
        r = ECHO.result,
    )
}

call P(
    n = %d,
)
`, n), map[string]interface{}{"r": exp}, nil, nil}
	case 6: // dynamic outer array x static inner array
		no, ni := hx.Pick(r, []int{2, 3, 11}), 2+r.Intn(2)
		var items []string
		var want []string
		var exp []interface{}
		for k := 0; k < ni; k++ {
			items = append(items, mroString("i"+strconv.Itoa(k)))
		}
		for o := 0; o < no; o++ {
			exp = append(exp, "e"+strconv.Itoa(o))
			for k := 0; k < ni; k++ {
				want = append(want, fmt.Sprintf("e%d|i%d", o, k))
			}
		}
		return c11Pipe{name: "dynamic_outer_static_inner_arrays", mro: c11StageDefs + fmt.Sprintf(`
pipeline INNER(
    in  string   tag,
    in  string[] m,
    out string   r,
)
{
    map call PAIR(
        a = self.tag,
        b = split self.m,
    )

    call ECHO(
        what = self.tag,
    )

    return (
        r = ECHO.result,
    )
}

pipeline P(
    in  int      n,
    out string[] r,
)
{
    call GENARR(
        n = self.n,
    )

    map call INNER(
        tag = split GENARR.a,
        m   = [%s],
    )

    return (
        r = INNER.r,
    )
}

call P(
    n = %d,
)
`, strings.Join(items, ", "), no), expect: map[string]interface{}{"r": exp},
			results: map[string][]string{"P/INNER/PAIR": want}}
	default: // dynamic outer map over a pipeline containing a static inner map call
		return c11Nested("dynamic_outer_static_inner", keys, c11E2EKeys(r, 2+r.Intn(2)))
	}
}

// c11Nested: the outer keys are only known at run time (dynamic fork
// expansion), the inner map call is over a literal map; the inner stage
// depends on both, so it has one fork per (outer, inner) pair.
func c11Nested(name string, outer, inner []string) c11Pipe {
	ks, _ := json.Marshal(outer)
	dirs := map[string]string{}
	for _, o := range outer {
		for _, k := range inner {
			dirs["P/INNER/PAIR/"+forkDirName(o)+"/"+forkDirName(k)] = "v:" + o + "|i:" + k
		}
	}
	return c11Pipe{name, c11StageDefs + fmt.Sprintf(`
pipeline INNER(
    in  string      tag,
    in  map<string> m,
    out string      r,
)
{
    map call PAIR(
        a = self.tag,
        b = split self.m,
    )

    call ECHO(
        what = self.tag,
    )

    return (
        r = ECHO.result,
    )
}

pipeline P(
    in  string[]    keys,
    out map<string> r,
)
{
    call GENMAP(
        keys = self.keys,
    )

    map call INNER(
        tag = split GENMAP.m,
        m   = %s,
    )

    return (
        r = INNER.r,
    )
}

call P(
    keys = %s,
)
`, strings.ReplaceAll(mroMap(inner, func(k string) string { return mroString("i:" + k) }), "\n", "\n    "), ks),
		map[string]interface{}{"r": strMap(outer, func(k string) interface{} { return "v:" + k })}, dirs, nil}
}

func c11E2E(args []string) {
	if len(args) < 3 {
		fmt.Fprintln(os.Stderr, "usage: vh c11 e2e <dir> <seed> <n>")
		os.Exit(2)
	}
	dir := args[0]
	seed, _ := strconv.ParseUint(args[1], 10, 64)
	n, _ := strconv.Atoi(args[2])
	r := hx.NewRng(seed + 77)
	work := filepath.Join(dir, "work")
	for name, code := range c11StageCode {
		d := filepath.Join(work, "stages", name)
		if err := os.MkdirAll(d, 0o755); err != nil {
			panic(err)
		}
		if err := os.WriteFile(filepath.Join(d, "__init__.py"), []byte(code), 0o644); err != nil {
			panic(err)
		}
	}
	w := hx.Out
	for i := 0; i < n; i++ {
		p := c11GenPipe(r, i)
		psid := fmt.Sprintf("ps%d", i)
		mroPath := filepath.Join(work, psid+".mro")
		if err := os.WriteFile(mroPath, []byte(p.mro), 0o644); err != nil {
			panic(err)
		}
		ctx, cancel := context.WithTimeout(context.Background(), 120*time.Second)
		cmd := exec.CommandContext(ctx, filepath.Join(dir, "bin", "mrp"), psid+".mro", psid,
			"--localcores=4", "--localmem=4", "--disable-ui")
		cmd.Dir = work
		cmd.Env = append(os.Environ(), "MROPATH="+work)
		out, err := cmd.CombinedOutput()
		cancel()
		name := fmt.Sprintf("%s#%d", p.name, i)
		if err != nil {
			tail := string(out)
			if len(tail) > 1500 {
				tail = tail[len(tail)-1500:]
			}
			class := "e2e_" + p.name + "_incomplete"
			fmt.Fprintf(w, "E2E %s %s %s: %v: %s\n", class, hx.H(p.mro), name, err, strings.ReplaceAll(tail, "\n", " / "))
			w.Flush()
			continue
		}
		raw, err := os.ReadFile(filepath.Join(work, psid, "P", "fork0", "_outs"))
		var got interface{}
		if err == nil {
			err = json.Unmarshal(raw, &got)
		}
		dirProblem := ""
		for d, want := range p.dirs {
			var o struct {
				Result string `json:"result"`
			}
			b, e := os.ReadFile(filepath.Join(work, psid, d, "_outs"))
			if e == nil {
				e = json.Unmarshal(b, &o)
			}
			if e != nil || o.Result != want {
				dirProblem = fmt.Sprintf("fork directory %s: want result %q, got %q (%v)", d, want, o.Result, e)
			}
		}
		for d, want := range p.results {
			var got []string
			filepath.Walk(filepath.Join(work, psid, d), func(path string, info os.FileInfo, err error) error {
				if err != nil {
					return nil
				}
				if info.IsDir() && path != filepath.Join(work, psid, d) && !strings.HasPrefix(info.Name(), "fork") {
					return filepath.SkipDir
				}
				if info.Name() == "_outs" {
					var o struct {
						Result string `json:"result"`
					}
					if b, e := os.ReadFile(path); e == nil && json.Unmarshal(b, &o) == nil {
						got = append(got, o.Result)
					} else {
						got = append(got, "<unreadable>")
					}
				}
				return nil
			})
			sort.Strings(got)
			w2 := append([]string(nil), want...)
			sort.Strings(w2)
			if !reflect.DeepEqual(got, w2) {
				dirProblem = fmt.Sprintf("fork results under %s: want %q, got %q", d, w2, got)
			}
		}
		if dirProblem != "" {
			fmt.Fprintf(w, "E2E e2e_%s_wrong_fork_dir %s %s: %s\n", p.name, hx.H(p.mro), name, dirProblem)
		} else if err != nil || !reflect.DeepEqual(got, p.expect) {
			exp, _ := json.Marshal(p.expect)
			fmt.Fprintf(w, "E2E e2e_%s_wrong_output %s %s: expected %s got %s\n", p.name, hx.H(p.mro), name, exp,
				strings.Join(strings.Fields(string(raw)), " "))
		} else {
			fmt.Fprintf(w, "E2E ok %s\n", name)
		}
		w.Flush()
		os.RemoveAll(filepath.Join(work, psid))
	}
	c11LongKeyProbe(dir, work)
}

// A key that is a legal directory name (fork_<key> is at most 255 bytes) but
// long enough that the journal file name of its jobs
// (<fqname>.fork_<key>.chnkN.u<uniq>.<file>) is not: the job completes, the
// notification cannot be written, mrp never learns about it.
func c11LongKeyProbe(dir, work string) {
	w := hx.Out
	long := strings.Repeat("k", 225)
	keys := []string{long, "b"}
	mro := c11StageDefs + fmt.Sprintf(`
pipeline P(
    in  map<string> m,
    out map<string> r,
)
{
    map call ECHO(
        what = split self.m,
    )

    return (
        r = ECHO.result,
    )
}

call P(
    m = %s,
)
`, mroMap(keys, func(k string) string { return mroString("v:" + k) }))
	psid := "pslong"
	if err := os.WriteFile(filepath.Join(work, psid+".mro"), []byte(mro), 0o644); err != nil {
		panic(err)
	}
	ctx, cancel := context.WithTimeout(context.Background(), 25*time.Second)
	cmd := exec.CommandContext(ctx, filepath.Join(dir, "bin", "mrp"), psid+".mro", psid,
		"--localcores=4", "--localmem=4", "--disable-ui")
	cmd.Dir = work
	cmd.Env = append(os.Environ(), "MROPATH="+work)
	out, err := cmd.CombinedOutput()
	cancel()
	raw, _ := os.ReadFile(filepath.Join(work, psid, "P", "fork0", "_outs"))
	var got interface{}
	json.Unmarshal(raw, &got)
	expect := map[string]interface{}{"r": strMap(keys, func(k string) interface{} { return "v:" + k })}
	switch {
	case err == nil && reflect.DeepEqual(got, expect):
		fmt.Fprintf(w, "E2E ok long_key\n")
	case err != nil && ctx.Err() == context.DeadlineExceeded:
		_, e := os.Stat(filepath.Join(work, psid, "P", "ECHO", "fork_"+long, "chnk0"))
		fmt.Fprintf(w, "E2E e2e_journal_name_exceeds_name_max %s long_key: a 225-byte key: no result within 25 s (job directory present: %v)\n",
			hx.H(mro), e == nil)
	default:
		tail := string(out)
		if len(tail) > 1200 {
			tail = tail[len(tail)-1200:]
		}
		fmt.Fprintf(w, "E2E e2e_long_key_wrong %s long_key: %v: outs %s: %s\n", hx.H(mro), err,
			strings.Join(strings.Fields(string(raw)), " "), strings.ReplaceAll(tail, "\n", " / "))
	}
	w.Flush()
	os.RemoveAll(filepath.Join(work, psid))
}
