package main

// c11E2E is replaced below by the end-to-end driver (thorough tier).
func c11E2E(args []string) {}
