package main

// C11, attempt lifecycle: op sequences on one job (a chunk, split or join of
// a real Fork built by the hook, in real directories):
//
//	a <runtype> <keyflag> <key> <chunk> <nchunks> <n> {S | R | W:<attempt>:<file> | F}
//
//	S  mrp prepares the job            (Metadata.uniquify)
//	R  mrp gives up on the attempt     (Metadata.uncheckedReset)
//	W  the process of attempt k, launched with the journal prefix that
//	   attempt was given, notifies a metadata file (mrjob's UpdateJournal)
//	F  mrp reads the journal           (parse, route, Metadata.cache; files removed)
//
// Observation per op: <index of the first attempt with the current
// uniquifier>,<number of attempts>,<recorded names>.

import (
	"fmt"
	"os"
	"path/filepath"
	"sort"
	"strconv"
	"strings"

	"github.com/martian-lang/martian/martian/core"
	"verifharness/internal/hx"
)

type c11AttemptCase struct {
	runType string
	keyed   bool
	key     string
	chunk   int
	nchunks int
	ops     []string
}

func c11ParseAttempt(f []string) c11AttemptCase {
	c := c11AttemptCase{runType: f[1], keyed: f[2] == "1", key: hx.U(f[3])}
	c.chunk, _ = strconv.Atoi(f[4])
	c.nchunks, _ = strconv.Atoi(f[5])
	n, _ := strconv.Atoi(f[6])
	c.ops = f[7 : 7+n]
	return c
}

var c11NotifyFiles = []string{"complete", "errors", "assert", "progress", "log", "jobinfo", "heartbeat", "outs", "stage_defs"}

func c11GenAttempt(r *hx.Rng) string {
	c := c11AttemptCase{runType: hx.Pick(r, []string{"main", "main", "split", "join"})}
	if r.Intn(3) == 0 {
		c.keyed = true
		c.key = c11RandKey(r)
		if len(c.key) > 10 {
			c.key = c.key[:3]
		}
	}
	c.nchunks = hx.Pick(r, []int{1, 2, 11})
	c.chunk = r.Intn(c.nchunks)
	n := 3 + r.Intn(10)
	atts := 0
	started := false
	var ops []string
	for i := 0; i < n; i++ {
		switch x := r.Intn(10); {
		case !started || x == 0:
			ops = append(ops, "S")
			if !started {
				atts++
			}
			started = true
		case x <= 2:
			ops = append(ops, "R")
			atts++
		case x <= 6:
			k := r.Intn(atts)
			if r.Intn(3) == 0 {
				k = atts - 1
			}
			ops = append(ops, fmt.Sprintf("W:%d:%s", k, hx.H(hx.Pick(r, c11NotifyFiles))))
		default:
			ops = append(ops, "F")
		}
	}
	ops = append(ops, "F")
	keyed := 0
	if c.keyed {
		keyed = 1
	}
	return fmt.Sprintf("a %s %d %s %d %d %d %s", c.runType, keyed, hx.H(c.key), c.chunk, c.nchunks, len(ops), strings.Join(ops, " "))
}

// c11RunAttempt drives the real objects.  It returns the observation line
// and the first violation of the property seen ("" if none).
func c11RunAttempt(c c11AttemptCase, scratch string, seq int) (string, string) {
	root := filepath.Join(scratch, fmt.Sprintf("att%d", seq))
	defer os.RemoveAll(root)
	t := core.VerifNewTree("ps", root)
	ni := t.AddNode(-1, "P.S")
	var parts []c11Part
	if c.keyed {
		parts = []c11Part{keyV(c.key, []string{c.key})}
	}
	if !t.AddFork(ni, parts, c.nchunks) {
		return "forkerr", ""
	}
	if err := t.Mkdirs(); err != nil {
		return "mkdirerr " + err.Error(), ""
	}
	type attempt struct{ uniq, dir, runFile string }
	var atts []attempt
	type write struct {
		k    int
		file string
	}
	var pending []write
	cur := ""
	violation := ""
	// The misattribution itself is reported in preference to the shared
	// identity that makes it possible.
	note := func(v string) {
		if violation == "" || (strings.HasPrefix(v, "stale_attempt_attributed") &&
			!strings.HasPrefix(violation, "stale_attempt_attributed")) {
			violation = v
		}
	}
	newAttempt := func(uniq, dir, runFile string) {
		for i, a := range atts {
			if a.uniq == uniq || a.dir == dir || a.runFile == runFile {
				note(fmt.Sprintf("attempt_identity_reused attempt %d of the job has the uniquifier / directory / journal prefix of attempt %d (%s)", len(atts), i, filepath.Base(runFile)))
				break
			}
		}
		atts = append(atts, attempt{uniq, dir, runFile})
	}
	var obs []string
	for _, op := range c.ops {
		switch op[0] {
		case 'S':
			uniq, dir, runFile, err := t.StartJob(ni, 0, c.chunk, c.runType)
			if err != nil {
				return "starterr " + err.Error(), violation
			}
			if cur == "" {
				newAttempt(uniq, dir, runFile)
			}
			cur = uniq
		case 'R':
			uniq, dir, runFile, err := t.ResetJob(ni, 0, c.chunk, c.runType)
			if err != nil {
				return "reseterr " + err.Error(), violation
			}
			if uniq != "" {
				newAttempt(uniq, dir, runFile)
			}
			cur = uniq
		case 'W':
			f := strings.Split(op, ":")
			k, _ := strconv.Atoi(f[1])
			if k < len(atts) {
				if err := t.JobNotify(atts[k].runFile, c.runType, hx.U(f[2])); err != nil {
					return "notifyerr " + err.Error(), violation
				}
				pending = append(pending, write{k, hx.U(f[2])})
			}
		case 'F':
			before := map[string]bool{}
			for _, n := range t.JobContents(ni, 0, c.chunk, c.runType) {
				before[n] = true
			}
			if _, err := t.Refresh(); err != nil {
				return "refresherr " + err.Error(), violation
			}
			legit := map[string]bool{}
			for _, w := range pending {
				if w.k == len(atts)-1 {
					legit[w.file] = true
				}
			}
			for _, n := range t.JobContents(ni, 0, c.chunk, c.runType) {
				if !before[n] && !legit[n] {
					who := -1
					for _, w := range pending {
						if w.file == n {
							who = w.k
						}
					}
					note(fmt.Sprintf("stale_attempt_attributed notification %s written by the process of attempt %d was recorded for attempt %d", n, who, len(atts)-1))
				}
			}
			pending = nil
		}
		class := -1
		for i, a := range atts {
			if cur != "" && a.uniq == cur {
				class = i
				break
			}
		}
		names := t.JobContents(ni, 0, c.chunk, c.runType)
		sort.Strings(names)
		hn := make([]string, len(names))
		for i, n := range names {
			hn[i] = hx.H(n)
		}
		obs = append(obs, fmt.Sprintf("%d,%d,%s", class, len(atts), strings.Join(hn, "+")))
	}
	return strings.Join(obs, ";"), violation
}
