package main

import (
	"go/ast"
	"sort"
)

func init() { register("Journal", (*extractor).journal) }

// ---------------------------------------------------------------- C11
//
// Constants the fork-name / journal-name models are parameterised by:
//   - the (old, new) pairs of the strings.NewReplacer in stage.go
//     (encodeJournalName); every old string must be a single byte, which is
//     what makes Go pick its byte-wise replacer (no rescanning);
//   - the text of jobJournalRe (node.go): the Coq recogniser was written for
//     one pattern, a lemma compares it with this constant;
//   - SplitPrefix / JoinPrefix;
//   - the metadata file names that are passed to UpdateJournal as constants.
func (e *extractor) journal() {
	x := e.valueSpec("martian/core/stage.go", "encodeJournalName")
	if x == nil {
		return
	}
	call, ok := x.(*ast.CallExpr)
	if !ok {
		e.fail("encodeJournalName: not a call")
		return
	}
	if sel, ok := call.Fun.(*ast.SelectorExpr); !ok || sel.Sel.Name != "NewReplacer" {
		e.fail("encodeJournalName: not strings.NewReplacer(...)")
		return
	}
	if len(call.Args)%2 != 0 || len(call.Args) == 0 {
		e.fail("encodeJournalName: odd argument count")
		return
	}
	var olds, news []string
	for i := 0; i < len(call.Args); i += 2 {
		o, ok1 := strLit(call.Args[i])
		n, ok2 := strLit(call.Args[i+1])
		if !ok1 || !ok2 {
			e.fail("encodeJournalName: non-literal argument")
			return
		}
		if len(o) != 1 {
			e.fail("encodeJournalName: an old string is not a single byte (generic replacer not modelled)")
			return
		}
		olds = append(olds, o)
		news = append(news, n)
	}
	e.defBytesList("journal_replacer_old", olds)
	e.defBytesList("journal_replacer_new", news)

	re := e.valueSpec("martian/core/node.go", "jobJournalRe")
	if re == nil {
		return
	}
	rc, ok := re.(*ast.CallExpr)
	if !ok || len(rc.Args) != 1 {
		e.fail("jobJournalRe: not regexp.MustCompile(literal)")
		return
	}
	pat, ok := strLit(rc.Args[0])
	if !ok {
		e.fail("jobJournalRe: pattern is not a literal")
		return
	}
	e.defBytes("job_journal_re", pat)

	consts := map[string]string{}
	if f := e.file("martian/core/metadata.go"); f != nil {
		for _, d := range f.Decls {
			gd, ok := d.(*ast.GenDecl)
			if !ok {
				continue
			}
			for _, s := range gd.Specs {
				vs, ok := s.(*ast.ValueSpec)
				if !ok {
					continue
				}
				for i, n := range vs.Names {
					if i < len(vs.Values) {
						if v, ok := strLit(vs.Values[i]); ok {
							consts[n.Name] = v
						}
					}
				}
			}
		}
	}
	for _, n := range []string{"SplitPrefix", "JoinPrefix"} {
		if _, ok := consts[n]; !ok {
			e.fail("const " + n + " not found in martian/core/metadata.go")
			return
		}
	}
	e.defBytes("split_prefix", consts["SplitPrefix"])
	e.defBytes("join_prefix", consts["JoinPrefix"])

	// names handed to UpdateJournal as constants
	seen := map[string]bool{}
	for _, rel := range []string{"cmd/mrjob/mrjob.go", "martian/adapter/adapter.go", "martian/core/metadata.go"} {
		f := e.file(rel)
		if f == nil {
			return
		}
		ast.Inspect(f, func(n ast.Node) bool {
			c, ok := n.(*ast.CallExpr)
			if !ok || len(c.Args) != 1 {
				return true
			}
			sel, ok := c.Fun.(*ast.SelectorExpr)
			if !ok || sel.Sel.Name != "UpdateJournal" {
				return true
			}
			name := ""
			switch a := c.Args[0].(type) {
			case *ast.Ident:
				name = a.Name
			case *ast.SelectorExpr:
				name = a.Sel.Name
			}
			if v, ok := consts[name]; ok {
				seen[v] = true
			}
			return true
		})
	}
	// the completion / failure targets are passed through variables
	for _, n := range []string{"CompleteFile", "Errors", "Assert"} {
		if v, ok := consts[n]; ok {
			seen[v] = true
		} else {
			e.fail("const " + n + " not found in martian/core/metadata.go")
		}
	}
	var names []string
	for v := range seen {
		names = append(names, v)
	}
	sort.Strings(names)
	if len(names) < 5 {
		e.fail("UpdateJournal call sites: fewer constant names than expected")
		return
	}
	e.defBytesList("journaled_file_names", names)
}
