package main

// C08: the constant data of martian/syntax/tokenizer.go - the dispatch table
// of keywordToken (which first bytes start which kind of token, the keyword
// literals in the order they are tried, with their token names) and the text
// of the four token regular expressions.  The Coq model hand-writes
// recognisers for exactly these regular expression texts; Proofs/Lexer.v
// contains lemmas stating that the extracted texts equal the modelled ones,
// so a changed rule breaks an obligation even before the correspondence runs.

import (
	"fmt"
	"go/ast"
	"go/token"
	"os"
	"path/filepath"
	"sort"
	"strings"
)

func init() { register("Lexer", (*extractor).lexer) }

// stringConsts collects every package-level string constant of a package.
func (e *extractor) stringConsts(dir string) map[string]string {
	res := map[string]string{}
	ents, err := os.ReadDir(filepath.Join(e.repo, dir))
	if err != nil {
		e.fail("read " + dir + ": " + err.Error())
		return res
	}
	for _, ent := range ents {
		n := ent.Name()
		if !strings.HasSuffix(n, ".go") || strings.HasSuffix(n, "_test.go") || strings.HasPrefix(n, "verif_") {
			continue
		}
		f := e.file(filepath.Join(dir, n))
		if f == nil {
			continue
		}
		for _, d := range f.Decls {
			gd, ok := d.(*ast.GenDecl)
			if !ok || gd.Tok != token.CONST {
				continue
			}
			for _, s := range gd.Specs {
				vs := s.(*ast.ValueSpec)
				for i, nm := range vs.Names {
					if i < len(vs.Values) {
						if v, ok := strLit(vs.Values[i]); ok {
							res[nm.Name] = v
						}
					}
				}
			}
		}
	}
	return res
}

func (e *extractor) strExpr(x ast.Expr, consts map[string]string) (string, bool) {
	switch v := x.(type) {
	case *ast.BasicLit:
		return strLit(v)
	case *ast.Ident:
		s, ok := consts[v.Name]
		return s, ok
	case *ast.BinaryExpr:
		if v.Op != token.ADD {
			return "", false
		}
		a, ok1 := e.strExpr(v.X, consts)
		b, ok2 := e.strExpr(v.Y, consts)
		return a + b, ok1 && ok2
	case *ast.ParenExpr:
		return e.strExpr(v.X, consts)
	case *ast.CallExpr:
		// string(Const)
		if id, ok := v.Fun.(*ast.Ident); ok && id.Name == "string" && len(v.Args) == 1 {
			return e.strExpr(v.Args[0], consts)
		}
	}
	return "", false
}

// callName returns f for an expression f(...).
func callName(x ast.Expr) (string, *ast.CallExpr) {
	if c, ok := x.(*ast.CallExpr); ok {
		if id, ok := c.Fun.(*ast.Ident); ok {
			return id.Name, c
		}
	}
	return "", nil
}

func (e *extractor) lexer() {
	const rel = "martian/syntax/tokenizer.go"
	consts := e.stringConsts("martian/syntax")
	fd := e.funcDecl(rel, "keywordToken")
	if fd == nil {
		return
	}
	var sw *ast.SwitchStmt
	ast.Inspect(fd.Body, func(n ast.Node) bool {
		if s, ok := n.(*ast.SwitchStmt); ok && sw == nil {
			if id, ok := s.Tag.(*ast.Ident); ok && id.Name == "r" {
				sw = s
			}
		}
		return true
	})
	if sw == nil {
		e.fail("keywordToken: switch r not found")
		return
	}
	var punct, strStart, cmtStart, space, numStart, idStart []byte
	type kw struct{ text, tok string }
	var kws []kw
	for _, st := range sw.Body.List {
		cc := st.(*ast.CaseClause)
		var chars []byte
		for _, x := range cc.List {
			c, ok := charLit(x)
			if !ok || c >= 0x80 {
				e.fail("keywordToken: unexpected case label")
				return
			}
			chars = append(chars, byte(c))
		}
		if len(chars) == 0 {
			e.fail("keywordToken: unexpected default clause")
			return
		}
		// classify the body
		var calls []string
		for _, s := range cc.Body {
			ast.Inspect(s, func(n ast.Node) bool {
				if nm, _ := callName(exprOf(n)); nm != "" {
					calls = append(calls, nm)
				}
				return true
			})
		}
		sig := strings.Join(calls, ",")
		switch {
		case sig == "int":
			punct = append(punct, chars...)
		case sig == "tokStringRule":
			strStart = append(strStart, chars...)
		case sig == "tokCommentRule":
			cmtStart = append(cmtStart, chars...)
		case sig == "leadingSpace":
			space = append(space, chars...)
		case sig == "tokFloatRule,len,tokIntRule":
			numStart = append(numStart, chars...)
		case sig == "tokIdRule":
			idStart = append(idStart, chars...)
		default:
			// keyword clause: (if v := bytesPrefixString(b, X); len(v) > 0 { return v, TOK })* [return bytesPrefixString(b, X), TOK]
			if len(chars) != 1 {
				e.fail(fmt.Sprintf("keywordToken: keyword clause with %d labels", len(chars)))
				return
			}
			for i, s := range cc.Body {
				var call *ast.CallExpr
				var tok ast.Expr
				switch v := s.(type) {
				case *ast.IfStmt:
					as, ok := v.Init.(*ast.AssignStmt)
					if !ok || len(as.Rhs) != 1 || len(v.Body.List) != 1 || v.Else != nil {
						e.fail(fmt.Sprintf("keywordToken: case %q: unexpected if shape", chars[0]))
						return
					}
					_, call = callName(as.Rhs[0])
					ret, ok := v.Body.List[0].(*ast.ReturnStmt)
					if !ok || len(ret.Results) != 2 {
						e.fail(fmt.Sprintf("keywordToken: case %q: unexpected if body", chars[0]))
						return
					}
					tok = ret.Results[1]
					// condition must be len(v) > 0
					be, ok := v.Cond.(*ast.BinaryExpr)
					if !ok || be.Op != token.GTR {
						e.fail(fmt.Sprintf("keywordToken: case %q: unexpected condition", chars[0]))
						return
					}
				case *ast.ReturnStmt:
					if i != len(cc.Body)-1 || len(v.Results) != 2 {
						e.fail(fmt.Sprintf("keywordToken: case %q: unexpected return", chars[0]))
						return
					}
					_, call = callName(v.Results[0])
					tok = v.Results[1]
				default:
					e.fail(fmt.Sprintf("keywordToken: case %q: unexpected statement", chars[0]))
					return
				}
				if call == nil || len(call.Args) != 2 {
					e.fail(fmt.Sprintf("keywordToken: case %q: expected bytesPrefixString(b, s)", chars[0]))
					return
				}
				if nm, _ := callName(call); nm != "bytesPrefixString" {
					e.fail(fmt.Sprintf("keywordToken: case %q: expected bytesPrefixString, got %s", chars[0], nm))
					return
				}
				text, ok := e.strExpr(call.Args[1], consts)
				tid, ok2 := tok.(*ast.Ident)
				if !ok || !ok2 || text == "" || text[0] != chars[0] {
					e.fail(fmt.Sprintf("keywordToken: case %q: keyword literal not resolved or does not start with the case label", chars[0]))
					return
				}
				kws = append(kws, kw{text, tid.Name})
			}
		}
	}
	// the statement after the switch: if r > utf8.RuneSelf { return leadingSpace(b) }
	foundNonASCII := false
	ast.Inspect(fd.Body, func(n ast.Node) bool {
		if is, ok := n.(*ast.IfStmt); ok {
			if be, ok := is.Cond.(*ast.BinaryExpr); ok && be.Op == token.GTR {
				if sel, ok := be.Y.(*ast.SelectorExpr); ok && sel.Sel.Name == "RuneSelf" {
					if id, ok := be.X.(*ast.Ident); ok && id.Name == "r" {
						foundNonASCII = true
					}
				}
			}
		}
		return true
	})
	if !foundNonASCII {
		e.fail("keywordToken: 'if r > utf8.RuneSelf' not found")
	}
	if len(strStart) != 1 || len(cmtStart) != 1 || len(punct) == 0 || len(space) == 0 || len(numStart) == 0 || len(kws) == 0 {
		e.fail("keywordToken: a dispatch class is empty or has an unexpected size")
		return
	}
	srt := func(b []byte) string {
		c := append([]byte(nil), b...)
		sort.Slice(c, func(i, j int) bool { return c[i] < c[j] })
		return string(c)
	}
	e.defBytes("lexer_punct", srt(punct))
	e.defBytes("lexer_string_start", string(strStart))
	e.defBytes("lexer_comment_start", string(cmtStart))
	e.defBytes("lexer_space", srt(space))
	e.defBytes("lexer_num_start", srt(numStart))
	e.defBytes("lexer_id_start", srt(idStart))
	parts := make([]string, len(kws))
	for i, k := range kws {
		parts[i] = "(" + nList([]byte(k.text)) + ", " + nList([]byte(k.tok)) + ")"
	}
	fmt.Fprintf(&e.out, "Definition lexer_keywords : list (list N * list N) := [\n  %s].\n", strings.Join(parts, ";\n  "))

	// the regular expressions: name = regexpRule(<string expr>, TOK)
	for _, r := range []struct{ v, def, tok string }{
		{"tokStringRule", "tok_string_re", "LITSTRING"},
		{"tokFloatRule", "tok_float_re", "NUM_FLOAT"},
		{"tokIntRule", "tok_int_re", "NUM_INT"},
		{"tokIdRule", "tok_id_re", "ID"},
	} {
		x := e.valueSpec(rel, r.v)
		if x == nil {
			continue
		}
		nm, call := callName(x)
		if nm != "regexpRule" || len(call.Args) != 2 {
			e.fail(r.v + ": not a regexpRule(...) call")
			continue
		}
		text, ok := e.strExpr(call.Args[0], consts)
		tid, ok2 := call.Args[1].(*ast.Ident)
		if !ok || !ok2 || tid.Name != r.tok {
			e.fail(r.v + ": expression text or token id not as expected")
			continue
		}
		e.defBytes(r.def, text)
	}
}

func exprOf(n ast.Node) ast.Expr {
	if x, ok := n.(ast.Expr); ok {
		return x
	}
	return nil
}
