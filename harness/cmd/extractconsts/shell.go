package main

import (
	"fmt"
	"go/ast"
)

func init() { register("Shell", (*extractor).shellQuote) }

// ---------------------------------------------------------------- C18

func (e *extractor) shellQuote() {
	fd := e.funcDecl("martian/core/shell_quote.go", "appendShellSafeQuote")
	if fd == nil {
		return
	}
	var sw *ast.SwitchStmt
	ast.Inspect(fd.Body, func(n ast.Node) bool {
		if s, ok := n.(*ast.SwitchStmt); ok && sw == nil {
			if id, ok := s.Tag.(*ast.Ident); ok && id.Name == "r" {
				sw = s
			}
		}
		return true
	})
	if sw == nil {
		e.fail("appendShellSafeQuote: switch r not found")
		return
	}
	var escaped []byte
	for _, st := range sw.Body.List {
		cc := st.(*ast.CaseClause)
		if cc.List == nil {
			continue // default: copied
		}
		for _, x := range cc.List {
			if sel, ok := x.(*ast.SelectorExpr); ok && sel.Sel.Name == "RuneError" {
				continue // octal escape branch, modelled structurally
			}
			c, ok := charLit(x)
			if !ok || c >= 0x80 {
				e.fail("appendShellSafeQuote: unexpected case label")
				return
			}
			// body must be: buf = append(buf, "\\<c>"...)
			good := false
			if len(cc.Body) == 1 {
				if as, ok := cc.Body[0].(*ast.AssignStmt); ok && len(as.Rhs) == 1 {
					if call, ok := as.Rhs[0].(*ast.CallExpr); ok && len(call.Args) == 2 {
						if s, ok := strLit(call.Args[1]); ok && s == "\\"+string(c) {
							good = true
						}
					}
				}
			}
			if !good {
				e.fail(fmt.Sprintf("appendShellSafeQuote: case %q does not append a backslash and the character", c))
				return
			}
			escaped = append(escaped, byte(c))
		}
	}
	e.defBytes("shell_escaped_bytes", string(escaped))

	// formatArgs separator literals
	fa := e.funcDecl("martian/core/jobmanager_remote.go", "formatArgs")
	if fa == nil {
		return
	}
	seps := map[string]int{}
	ast.Inspect(fa.Body, func(n ast.Node) bool {
		if call, ok := n.(*ast.CallExpr); ok && call.Ellipsis.IsValid() && len(call.Args) == 2 {
			if s, ok := strLit(call.Args[1]); ok {
				seps[s]++
			}
		}
		return true
	})
	if len(seps) != 1 {
		e.fail("formatArgs: expected exactly one separator literal")
		return
	}
	for s, n := range seps {
		if n != 2 {
			e.fail("formatArgs: separator literal expected at two sites")
		}
		e.defBytes("format_args_sep", s)
	}
}
