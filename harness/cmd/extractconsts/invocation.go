package main

import (
	"go/ast"
	"reflect"
	"regexp"
	"strings"
)

func init() { register("Invocation", (*extractor).invocation) }

// ---------------------------------------------------------------- C16
//
// Constants the model K/Invocation.v is parameterised by:
//   - the json key SplitExp.MarshalJSON/encodeJSON writes for a split
//     argument (syntax/format_exp_json.go), and the key convertToExp reads it
//     back from (the struct tag in core/runtime.go) - the theorem
//     split_keys_agree is re-checked against both on every run;
//   - the key of a reference object and the "self." prefix (RefExp.EncodeJSON);
//   - the json tags of core.InvocationData (jobinfo.go).
func (e *extractor) invocation() {
	const fj = "martian/syntax/format_exp_json.go"
	f := e.file(fj)
	if f == nil {
		return
	}
	// every `{"<key>":` / `{"<key>":null}` literal of the SplitExp methods
	// that does not open with the call key must use one and the same key
	re := regexp.MustCompile(`^\{"(\w+)":(null\})?$`)
	keys := map[string]int{}
	var refKey string
	selfDot := ""
	for _, d := range f.Decls {
		fd, ok := d.(*ast.FuncDecl)
		if !ok || fd.Recv == nil || len(fd.Recv.List) != 1 {
			continue
		}
		recv := ""
		if st, ok := fd.Recv.List[0].Type.(*ast.StarExpr); ok {
			if id, ok := st.X.(*ast.Ident); ok {
				recv = id.Name
			}
		}
		switch {
		case recv == "SplitExp" && (fd.Name.Name == "MarshalJSON" || fd.Name.Name == "encodeJSON"):
			ast.Inspect(fd.Body, func(n ast.Node) bool {
				if s, ok := strLit2(n); ok {
					if m := re.FindStringSubmatch(s); m != nil && m[1] != "call" {
						keys[m[1]]++
					}
				}
				return true
			})
		case recv == "RefExp" && fd.Name.Name == "EncodeJSON":
			ast.Inspect(fd.Body, func(n ast.Node) bool {
				if s, ok := strLit2(n); ok {
					if strings.HasPrefix(s, `{"`) && strings.HasSuffix(s, `":"`) {
						refKey = s[2 : len(s)-3]
					}
					if s == "self." {
						selfDot = s
					}
				}
				return true
			})
		}
	}
	if len(keys) != 1 {
		e.fail("SplitExp.MarshalJSON/encodeJSON: expected exactly one split key literal")
		return
	}
	for k, n := range keys {
		if n < 2 {
			e.fail("SplitExp: split key literal expected in MarshalJSON and encodeJSON")
		}
		e.defBytes("split_enc_key_n", k)
	}
	if refKey == "" || selfDot == "" {
		e.fail("RefExp.EncodeJSON: reference key / self. prefix literal not found")
		return
	}
	e.defBytes("reference_key_n", refKey)
	e.defBytes("self_dot_n", selfDot)

	// the struct tag convertToExp decodes the split wrapper with
	fd := e.funcDecl("martian/core/runtime.go", "convertToExp")
	if fd == nil {
		return
	}
	var tags []string
	ast.Inspect(fd.Body, func(n ast.Node) bool {
		if st, ok := n.(*ast.StructType); ok {
			for _, fl := range st.Fields.List {
				if fl.Tag != nil {
					if s, ok := strLit(fl.Tag); ok {
						tags = append(tags, reflect.StructTag(s).Get("json"))
					}
				}
			}
		}
		return true
	})
	if len(tags) != 1 || tags[0] == "" || strings.Contains(tags[0], ",") {
		e.fail("convertToExp: expected one struct field with a plain json tag")
		return
	}
	e.defBytes("split_dec_key_n", tags[0])

	// InvocationData json tags
	jf := e.file("martian/core/jobinfo.go")
	if jf == nil {
		return
	}
	found := map[string]string{}
	ast.Inspect(jf, func(n ast.Node) bool {
		ts, ok := n.(*ast.TypeSpec)
		if !ok || ts.Name.Name != "InvocationData" {
			return true
		}
		if st, ok := ts.Type.(*ast.StructType); ok {
			for _, fl := range st.Fields.List {
				if fl.Tag == nil || len(fl.Names) != 1 {
					continue
				}
				if s, ok := strLit(fl.Tag); ok {
					found[fl.Names[0].Name] = strings.Split(reflect.StructTag(s).Get("json"), ",")[0]
				}
			}
		}
		return false
	})
	for _, fld := range [][2]string{{"inv_tag_call_n", "Call"}, {"inv_tag_args_n", "Args"},
		{"inv_tag_include_n", "Include"}, {"inv_tag_splitargs_n", "SplitArgs"}} {
		v, ok := found[fld[1]]
		if !ok || v == "" {
			e.fail("InvocationData." + fld[1] + ": json tag not found")
			return
		}
		e.defBytes(fld[0], v)
	}
}

func strLit2(n ast.Node) (string, bool) {
	x, ok := n.(ast.Expr)
	if !ok {
		return "", false
	}
	return strLit(x)
}
