package main

import (
	"fmt"
	"go/ast"
	"go/token"
	"math"
	"math/big"
	"strconv"
)

func init() { register("Equiv", (*extractor).equiv) }

// ---------------------------------------------------------------- C15
//
// Constants of martian/syntax/equivalence.go that the model K/Equiv.v is
// parameterised by:
//   - the name of the `disabled` modifier (const in compile_stages.go),
//   - the wildcard binding id compared in BindStms.Equals,
//   - the relative tolerance literal of FloatExp.equal, as the exact float64
//     value m * 2^-k that the Go compiler gives the literal.
func (e *extractor) equiv() {
	if x := e.valueSpec("martian/syntax/compile_stages.go", "disabled"); x != nil {
		if s, ok := strLit(x); ok {
			e.defBytes("equiv_disabled_name", s)
		} else {
			e.fail("const disabled is not a string literal")
		}
	}
	// BindStms.Equals: if b.Id == "<star>" { continue }
	if fd := e.method("martian/syntax/equivalence.go", "BindStms", "Equals"); fd != nil {
		var lits []string
		ast.Inspect(fd.Body, func(n ast.Node) bool {
			if be, ok := n.(*ast.BinaryExpr); ok && be.Op == token.EQL {
				if sel, ok := be.X.(*ast.SelectorExpr); ok && sel.Sel.Name == "Id" {
					if s, ok := strLit(be.Y); ok {
						lits = append(lits, s)
					}
				}
			}
			return true
		})
		if len(lits) != 1 {
			e.fail("BindStms.Equals: expected exactly one `.Id == \"...\"` comparison")
		} else {
			e.defBytes("equiv_star_id", lits[0])
		}
	}
	// FloatExp.equal: math.Abs(other.Value-exp.Value) <= math.Abs(exp.Value)*<tol>
	if fd := e.method("martian/syntax/equivalence.go", "FloatExp", "equal"); fd != nil {
		var lits []string
		ast.Inspect(fd.Body, func(n ast.Node) bool {
			if be, ok := n.(*ast.BinaryExpr); ok && be.Op == token.LEQ {
				if mul, ok := be.Y.(*ast.BinaryExpr); ok && mul.Op == token.MUL {
					if bl, ok := mul.Y.(*ast.BasicLit); ok && (bl.Kind == token.FLOAT || bl.Kind == token.INT) {
						lits = append(lits, bl.Value)
					}
				}
			}
			return true
		})
		if len(lits) != 1 {
			e.fail("FloatExp.equal: expected exactly one `<= math.Abs(..)*<literal>` comparison")
			return
		}
		f, err := strconv.ParseFloat(lits[0], 64)
		if err != nil || f <= 0 || f >= 1 || math.IsInf(f, 0) {
			e.fail("FloatExp.equal: tolerance literal is not a float in (0,1)")
			return
		}
		// exact value: mant * 2^exp with mant an integer
		fr, ex := math.Frexp(f) // f = fr * 2^ex, fr in [0.5,1)
		mant := new(big.Float).SetFloat64(fr)
		mant.SetMantExp(mant, 53)
		mi, acc := mant.Int(nil)
		if acc != big.Exact {
			e.fail("FloatExp.equal: tolerance mantissa not exact")
			return
		}
		k := 53 - ex
		for mi.Bit(0) == 0 {
			mi.Rsh(mi, 1)
			k--
		}
		fmt.Fprintf(&e.out, "(* FloatExp.equal tolerance literal %s = equiv_tol_m * 2^-equiv_tol_negexp exactly *)\n", lits[0])
		fmt.Fprintf(&e.out, "Definition equiv_tol_m : N := %s%%N.\n", mi.String())
		fmt.Fprintf(&e.out, "Definition equiv_tol_negexp : N := %d%%N.\n", k)
	}
}

// method finds `func (recv *T) name(...)`.
func (e *extractor) method(rel, recvType, name string) *ast.FuncDecl {
	f := e.file(rel)
	if f == nil {
		return nil
	}
	for _, d := range f.Decls {
		fd, ok := d.(*ast.FuncDecl)
		if !ok || fd.Name.Name != name || fd.Recv == nil || len(fd.Recv.List) != 1 {
			continue
		}
		t := fd.Recv.List[0].Type
		if st, ok := t.(*ast.StarExpr); ok {
			t = st.X
		}
		if id, ok := t.(*ast.Ident); ok && id.Name == recvType {
			return fd
		}
	}
	e.fail("method " + recvType + "." + name + " not found in " + rel)
	return nil
}
