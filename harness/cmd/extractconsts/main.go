// extractconsts regenerates coq/Extracted.v from /repo's current sources:
// constant data (escape sets, separators, regular expressions, replacer
// pairs, file-name tables) that the Coq models are parameterised by, so that
// theorems mentioning them are re-checked against what the code says now.
//
// usage: extractconsts <repo> <outdir> [topic...]
// Exit status 3 = an expected declaration is missing or has changed shape
// (the names are printed, one per line, prefixed with "EXTRACT-FAIL ").
package main

import (
	"fmt"
	"go/ast"
	"go/parser"
	"go/token"
	"os"
	"path/filepath"
	"sort"
	"strconv"
	"strings"
)

type extractor struct {
	repo  string
	fset  *token.FileSet
	files map[string]*ast.File
	out   strings.Builder
	fails []string
}

func (e *extractor) file(rel string) *ast.File {
	if f, ok := e.files[rel]; ok {
		return f
	}
	f, err := parser.ParseFile(e.fset, filepath.Join(e.repo, rel), nil, parser.ParseComments)
	if err != nil {
		e.fail("parse " + rel + ": " + err.Error())
		f = nil
	}
	e.files[rel] = f
	return f
}

func (e *extractor) fail(what string) { e.fails = append(e.fails, what) }

func (e *extractor) funcDecl(rel, name string) *ast.FuncDecl {
	f := e.file(rel)
	if f == nil {
		return nil
	}
	for _, d := range f.Decls {
		if fd, ok := d.(*ast.FuncDecl); ok && fd.Name.Name == name {
			return fd
		}
	}
	e.fail("func " + name + " not found in " + rel)
	return nil
}

// top-level var/const initialiser expression
func (e *extractor) valueSpec(rel, name string) ast.Expr {
	f := e.file(rel)
	if f == nil {
		return nil
	}
	for _, d := range f.Decls {
		gd, ok := d.(*ast.GenDecl)
		if !ok {
			continue
		}
		for _, s := range gd.Specs {
			vs, ok := s.(*ast.ValueSpec)
			if !ok {
				continue
			}
			for i, n := range vs.Names {
				if n.Name == name && i < len(vs.Values) {
					return vs.Values[i]
				}
			}
		}
	}
	e.fail("var/const " + name + " not found in " + rel)
	return nil
}

func strLit(x ast.Expr) (string, bool) {
	bl, ok := x.(*ast.BasicLit)
	if !ok || bl.Kind != token.STRING {
		return "", false
	}
	s, err := strconv.Unquote(bl.Value)
	return s, err == nil
}

func charLit(x ast.Expr) (rune, bool) {
	bl, ok := x.(*ast.BasicLit)
	if !ok || bl.Kind != token.CHAR {
		return 0, false
	}
	s, err := strconv.Unquote(bl.Value)
	if err != nil {
		return 0, false
	}
	r := []rune(s)
	if len(r) != 1 {
		return 0, false
	}
	return r[0], true
}

func nList(bs []byte) string {
	parts := make([]string, len(bs))
	for i, b := range bs {
		parts[i] = strconv.Itoa(int(b))
	}
	return "[" + strings.Join(parts, "; ") + "]%N"
}

func (e *extractor) defBytes(name string, s string) {
	fmt.Fprintf(&e.out, "Definition %s : list N := %s.\n", name, nList([]byte(s)))
}

func (e *extractor) defBytesList(name string, ss []string) {
	parts := make([]string, len(ss))
	for i, s := range ss {
		parts[i] = nList([]byte(s))
	}
	fmt.Fprintf(&e.out, "Definition %s : list (list N) := [%s].\n", name, strings.Join(parts, ";\n  "))
}

// ---------------------------------------------------------------- C18

func (e *extractor) shellQuote() {
	fd := e.funcDecl("martian/core/shell_quote.go", "appendShellSafeQuote")
	if fd == nil {
		return
	}
	var sw *ast.SwitchStmt
	ast.Inspect(fd.Body, func(n ast.Node) bool {
		if s, ok := n.(*ast.SwitchStmt); ok && sw == nil {
			if id, ok := s.Tag.(*ast.Ident); ok && id.Name == "r" {
				sw = s
			}
		}
		return true
	})
	if sw == nil {
		e.fail("appendShellSafeQuote: switch r not found")
		return
	}
	var escaped []byte
	for _, st := range sw.Body.List {
		cc := st.(*ast.CaseClause)
		if cc.List == nil {
			continue // default: copied
		}
		for _, x := range cc.List {
			if sel, ok := x.(*ast.SelectorExpr); ok && sel.Sel.Name == "RuneError" {
				continue // octal escape branch, modelled structurally
			}
			c, ok := charLit(x)
			if !ok || c >= 0x80 {
				e.fail("appendShellSafeQuote: unexpected case label")
				return
			}
			// body must be: buf = append(buf, "\\<c>"...)
			good := false
			if len(cc.Body) == 1 {
				if as, ok := cc.Body[0].(*ast.AssignStmt); ok && len(as.Rhs) == 1 {
					if call, ok := as.Rhs[0].(*ast.CallExpr); ok && len(call.Args) == 2 {
						if s, ok := strLit(call.Args[1]); ok && s == "\\"+string(c) {
							good = true
						}
					}
				}
			}
			if !good {
				e.fail(fmt.Sprintf("appendShellSafeQuote: case %q does not append a backslash and the character", c))
				return
			}
			escaped = append(escaped, byte(c))
		}
	}
	e.defBytes("shell_escaped_bytes", string(escaped))

	// formatArgs separator literals
	fa := e.funcDecl("martian/core/jobmanager_remote.go", "formatArgs")
	if fa == nil {
		return
	}
	seps := map[string]int{}
	ast.Inspect(fa.Body, func(n ast.Node) bool {
		if call, ok := n.(*ast.CallExpr); ok && call.Ellipsis.IsValid() && len(call.Args) == 2 {
			if s, ok := strLit(call.Args[1]); ok {
				seps[s]++
			}
		}
		return true
	})
	if len(seps) != 1 {
		e.fail("formatArgs: expected exactly one separator literal")
		return
	}
	for s, n := range seps {
		if n != 2 {
			e.fail("formatArgs: separator literal expected at two sites")
		}
		e.defBytes("format_args_sep", s)
	}
}

type group struct {
	topic string // output file coq/Extracted/<topic>.v
	f     func(*extractor)
}

var groups = []group{
	{"Shell", (*extractor).shellQuote},
}

// usage: extractconsts <repo> <outdir> [topic...]
func main() {
	if len(os.Args) < 3 {
		fmt.Fprintln(os.Stderr, "usage: extractconsts <repo> <outdir> [topic...]")
		os.Exit(2)
	}
	want := map[string]bool{}
	for _, t := range os.Args[3:] {
		want[t] = true
	}
	rc := 0
	for _, g := range groups {
		if len(want) > 0 && !want[g.topic] {
			continue
		}
		e := &extractor{repo: os.Args[1], fset: token.NewFileSet(), files: map[string]*ast.File{}}
		e.out.WriteString("(* GENERATED by harness/cmd/extractconsts from /repo - do not edit. *)\n")
		e.out.WriteString("From Coq Require Import List NArith ZArith.\nImport ListNotations.\n\n")
		g.f(e)
		if len(e.fails) > 0 {
			sort.Strings(e.fails)
			for _, f := range e.fails {
				fmt.Printf("EXTRACT-FAIL %s: %s\n", g.topic, f)
			}
			rc = 3
			continue
		}
		path := filepath.Join(os.Args[2], g.topic+".v")
		old, _ := os.ReadFile(path)
		if string(old) != e.out.String() {
			if err := os.WriteFile(path, []byte(e.out.String()), 0o644); err != nil {
				fmt.Fprintln(os.Stderr, err)
				os.Exit(2)
			}
			fmt.Println("EXTRACT-CHANGED", g.topic)
		}
	}
	os.Exit(rc)
}
