package main

// Constants and call-site inventories of the local job manager's resource
// handling (property C12), regenerated from the Go AST on every run:
//
//	procs_per_job, starting_thread_count   the process-count estimate constants
//	centi_per_core, mb_per_gb              the unit multipliers GetSystemReqs applies to
//	                                       result.Threads / result.MemGB / result.VMemGB
//	enqueue_acquire_order                  the order in which Enqueue acquires the four
//	                                       semaphores (0 cores, 1 memory, 2 vmem, 3 processes)
//	update_size_callsites                  how many calls of ResourceSemaphore.UpdateSize exist
//	update_size_soft_le_hard               1 iff each of them is procsSem.UpdateSize(rlimCur(rlim))
//	                                       on a semaphore created with rlimMax(rlim)
import (
	"fmt"
	"go/ast"
	"go/token"
	"os"
	"path/filepath"
	"strconv"
	"strings"
)

func init() { register("Resources", (*extractor).resources) }

func exprString(x ast.Expr) string {
	switch v := x.(type) {
	case *ast.Ident:
		return v.Name
	case *ast.SelectorExpr:
		return exprString(v.X) + "." + v.Sel.Name
	case *ast.CallExpr:
		args := make([]string, len(v.Args))
		for i, a := range v.Args {
			args[i] = exprString(a)
		}
		return exprString(v.Fun) + "(" + strings.Join(args, ",") + ")"
	case *ast.BasicLit:
		return v.Value
	case *ast.ParenExpr:
		return "(" + exprString(v.X) + ")"
	}
	return fmt.Sprintf("<%T>", x)
}

func (e *extractor) intConst(rel, name string) (uint64, bool) {
	x := e.valueSpec(rel, name)
	if x == nil {
		return 0, false
	}
	bl, ok := x.(*ast.BasicLit)
	if !ok || bl.Kind != token.INT {
		e.fail("const " + name + " is not an integer literal")
		return 0, false
	}
	v, err := strconv.ParseUint(bl.Value, 0, 64)
	if err != nil {
		e.fail("const " + name + ": " + err.Error())
		return 0, false
	}
	return v, true
}

func (e *extractor) resources() {
	const lj = "martian/core/jobmanager_local.go"
	if v, ok := e.intConst(lj, "procsPerJob"); ok {
		fmt.Fprintf(&e.out, "Definition procs_per_job : N := %d%%N.\n", v)
	}
	if v, ok := e.intConst(lj, "startingThreadCount"); ok {
		fmt.Fprintf(&e.out, "Definition starting_thread_count : N := %d%%N.\n", v)
	}

	// unit multipliers in GetSystemReqs: every product <result field> * <int literal>
	if fd := e.funcDecl(lj, "GetSystemReqs"); fd != nil {
		mult := map[string]map[string]bool{}
		ast.Inspect(fd.Body, func(n ast.Node) bool {
			be, ok := n.(*ast.BinaryExpr)
			if !ok || be.Op != token.MUL {
				return true
			}
			sel, ok := be.X.(*ast.SelectorExpr)
			lit, ok2 := be.Y.(*ast.BasicLit)
			if !ok || !ok2 || lit.Kind != token.INT {
				return true
			}
			if _, ok := sel.X.(*ast.Ident); ok {
				if mult[sel.Sel.Name] == nil {
					mult[sel.Sel.Name] = map[string]bool{}
				}
				mult[sel.Sel.Name][lit.Value] = true
			}
			return true
		})
		one := func(field string) (string, bool) {
			if len(mult[field]) != 1 {
				e.fail("GetSystemReqs: expected exactly one integer multiplier of result." + field)
				return "", false
			}
			for k := range mult[field] {
				return k, true
			}
			return "", false
		}
		if t, ok := one("Threads"); ok {
			fmt.Fprintf(&e.out, "Definition centi_per_core : Z := %s%%Z.\n", t)
		}
		m, ok1 := one("MemGB")
		v, ok2 := one("VMemGB")
		if ok1 && ok2 {
			if m != v {
				e.fail("GetSystemReqs: MemGB and VMemGB use different multipliers")
			} else {
				fmt.Fprintf(&e.out, "Definition mb_per_gb : Z := %s%%Z.\n", m)
			}
		}
	}

	// acquisition order in Enqueue
	if fd := e.funcDecl(lj, "Enqueue"); fd != nil {
		names := map[string]int{"centcoreSem": 0, "memMBSem": 1, "vmemMBSem": 2, "procsSem": 3}
		// local aliases of the form  x := <recv>.<field>
		alias := map[string]string{}
		ast.Inspect(fd.Body, func(n ast.Node) bool {
			if as, ok := n.(*ast.AssignStmt); ok && as.Tok == token.DEFINE && len(as.Lhs) == 1 && len(as.Rhs) == 1 {
				if id, ok := as.Lhs[0].(*ast.Ident); ok {
					if sel, ok := as.Rhs[0].(*ast.SelectorExpr); ok {
						alias[id.Name] = sel.Sel.Name
					}
				}
			}
			return true
		})
		var order []string
		ast.Inspect(fd.Body, func(n ast.Node) bool {
			call, ok := n.(*ast.CallExpr)
			if !ok {
				return true
			}
			if sel, ok := call.Fun.(*ast.SelectorExpr); ok && sel.Sel.Name == "Acquire" {
				recv := exprString(sel.X)
				field := recv
				if s, ok := sel.X.(*ast.SelectorExpr); ok {
					field = s.Sel.Name
				} else if a, ok := alias[recv]; ok {
					field = a
				}
				k, known := names[field]
				if !known {
					e.fail("Enqueue: Acquire on unknown receiver " + recv)
					return true
				}
				order = append(order, strconv.Itoa(k))
			}
			return true
		})
		fmt.Fprintf(&e.out, "Definition enqueue_acquire_order : list N := [%s]%%N.\n", strings.Join(order, "; "))
	}

	// every call of UpdateSize in the core package (tests excluded)
	dir := filepath.Join(e.repo, "martian/core")
	ents, err := os.ReadDir(dir)
	if err != nil {
		e.fail("read martian/core: " + err.Error())
		return
	}
	sites, good := 0, 0
	hardMax := false
	for _, ent := range ents {
		name := ent.Name()
		if !strings.HasSuffix(name, ".go") || strings.HasSuffix(name, "_test.go") || strings.HasPrefix(name, "verif_") {
			continue
		}
		f := e.file("martian/core/" + name)
		if f == nil {
			continue
		}
		ast.Inspect(f, func(n ast.Node) bool {
			switch v := n.(type) {
			case *ast.CallExpr:
				if sel, ok := v.Fun.(*ast.SelectorExpr); ok && sel.Sel.Name == "UpdateSize" {
					sites++
					if strings.HasSuffix(exprString(sel.X), ".procsSem") && len(v.Args) == 1 && strings.HasPrefix(exprString(v.Args[0]), "rlimCur(") {
						good++
					}
				}
			case *ast.AssignStmt:
				if len(v.Lhs) == 1 && len(v.Rhs) == 1 && strings.HasSuffix(exprString(v.Lhs[0]), ".procsSem") {
					if call, ok := v.Rhs[0].(*ast.CallExpr); ok && exprString(call.Fun) == "NewResourceSemaphore" &&
						len(call.Args) > 0 && strings.HasPrefix(exprString(call.Args[0]), "rlimMax(") {
						hardMax = true
					}
				}
			}
			return true
		})
	}
	fmt.Fprintf(&e.out, "Definition update_size_callsites : N := %d%%N.\n", sites)
	ok := 0
	if sites == good && hardMax {
		ok = 1
	}
	fmt.Fprintf(&e.out, "Definition update_size_soft_le_hard : N := %d%%N.\n", ok)
}
