package main

import (
	"fmt"
	"go/ast"
	"go/token"
	"strconv"
)

func init() { register("JsonTypes", (*extractor).jsonTypes) }

// ---------------------------------------------------------------- C17
//
// Constants the model K/JsonTypes.v is parameterised by:
//   - the builtin type names (Kind* constants of syntax/expression.go), which
//     decide base-name equality in StructType.IsAssignableFrom;
//   - the limits of IsLegalUnixFilename (syntax/compile_params.go), applied to
//     the keys of directory-like typed maps by TypedMapType.IsValidJson.
func (e *extractor) jsonTypes() {
	const expr = "martian/syntax/expression.go"
	for _, kc := range [][2]string{
		{"kind_string", "KindString"}, {"kind_int", "KindInt"}, {"kind_float", "KindFloat"},
		{"kind_bool", "KindBool"}, {"kind_path", "KindPath"}, {"kind_file", "KindFile"},
		{"kind_map", "KindMap"},
	} {
		x := e.valueSpec(expr, kc[1])
		if x == nil {
			return
		}
		s, ok := strLit(x)
		if !ok {
			e.fail("const " + kc[1] + " is not a string literal")
			return
		}
		e.defBytes(kc[0], s)
	}

	fd := e.funcDecl("martian/syntax/compile_params.go", "IsLegalUnixFilename")
	if fd == nil {
		return
	}
	if fd.Type.Params == nil || len(fd.Type.Params.List) != 1 || len(fd.Type.Params.List[0].Names) != 1 {
		e.fail("IsLegalUnixFilename: expected one parameter")
		return
	}
	param := fd.Type.Params.List[0].Names[0].Name
	var maxLens []int
	var reserved []string
	var forbidden []byte
	var loopVar string
	shapeOK := true
	// every `if` of the function must return an error; the conditions are
	// combinations (||) of: len(name) > N, name == "lit", c == 'x', c == 0
	var cond func(x ast.Expr)
	cond = func(x ast.Expr) {
		be, ok := x.(*ast.BinaryExpr)
		if !ok {
			shapeOK = false
			return
		}
		switch be.Op {
		case token.LOR:
			cond(be.X)
			cond(be.Y)
		case token.GTR:
			call, ok := be.X.(*ast.CallExpr)
			lit, ok2 := be.Y.(*ast.BasicLit)
			if !ok || !ok2 || lit.Kind != token.INT || len(call.Args) != 1 {
				shapeOK = false
				return
			}
			if f, ok := call.Fun.(*ast.Ident); !ok || f.Name != "len" {
				shapeOK = false
				return
			}
			if a, ok := call.Args[0].(*ast.Ident); !ok || a.Name != param {
				shapeOK = false
				return
			}
			n, err := strconv.Atoi(lit.Value)
			if err != nil {
				shapeOK = false
				return
			}
			maxLens = append(maxLens, n)
		case token.EQL:
			id, ok := be.X.(*ast.Ident)
			if !ok {
				shapeOK = false
				return
			}
			if id.Name == param {
				s, ok := strLit(be.Y)
				if !ok {
					shapeOK = false
					return
				}
				reserved = append(reserved, s)
			} else if id.Name == loopVar && loopVar != "" {
				if c, ok := charLit(be.Y); ok && c < 0x80 {
					forbidden = append(forbidden, byte(c))
				} else if lit, ok := be.Y.(*ast.BasicLit); ok && lit.Kind == token.INT {
					n, err := strconv.Atoi(lit.Value)
					if err != nil || n < 0 || n > 127 {
						shapeOK = false
						return
					}
					forbidden = append(forbidden, byte(n))
				} else {
					shapeOK = false
				}
			} else {
				shapeOK = false
			}
		default:
			shapeOK = false
		}
	}
	returnsErr := func(b *ast.BlockStmt) bool {
		if len(b.List) != 1 {
			return false
		}
		r, ok := b.List[0].(*ast.ReturnStmt)
		if !ok || len(r.Results) != 1 {
			return false
		}
		_, isCall := r.Results[0].(*ast.CallExpr)
		return isCall
	}
	var ifs func(s ast.Stmt)
	ifs = func(s ast.Stmt) {
		is, ok := s.(*ast.IfStmt)
		if !ok {
			shapeOK = false
			return
		}
		if is.Init != nil || !returnsErr(is.Body) {
			shapeOK = false
			return
		}
		cond(is.Cond)
		if is.Else != nil {
			ifs(is.Else)
		}
	}
	nStmts := len(fd.Body.List)
	for i, st := range fd.Body.List {
		switch s := st.(type) {
		case *ast.IfStmt:
			ifs(s)
		case *ast.RangeStmt:
			// for _, c := range name { if ... }
			v, ok := s.Value.(*ast.Ident)
			x, ok2 := s.X.(*ast.Ident)
			if !ok || !ok2 || x.Name != param {
				shapeOK = false
				break
			}
			loopVar = v.Name
			for _, inner := range s.Body.List {
				ifs(inner)
			}
			loopVar = ""
		case *ast.ReturnStmt:
			// final `return nil`
			if i != nStmts-1 || len(s.Results) != 1 {
				shapeOK = false
			} else if id, ok := s.Results[0].(*ast.Ident); !ok || id.Name != "nil" {
				shapeOK = false
			}
		default:
			shapeOK = false
		}
	}
	if !shapeOK || len(maxLens) != 1 {
		e.fail("IsLegalUnixFilename: unexpected shape (want: len(name) > N, name == \"..\" and per-rune c == 'x' tests, each returning an error)")
		return
	}
	fmt.Fprintf(&e.out, "Definition legal_max_len : N := %d%%N.\n", maxLens[0])
	e.defBytesList("legal_reserved", reserved)
	e.defBytes("legal_forbidden", string(forbidden))
}
