package main

import (
	"fmt"
	"go/ast"
	"go/token"
	"strconv"
)

func init() { register("PostProcess", (*extractor).postProcess) }

// ---------------------------------------------------------------- C13
//
// outs_dir_name: the literal joined to the pipestance path in
// Fork.postProcess.  legal_name_*: the limit, the reserved names and the
// forbidden characters of syntax.IsLegalUnixFilename, which decides which
// typed-map keys become directory entries under outs/.
func (e *extractor) postProcess() {
	fd := e.funcDecl("martian/core/post_process.go", "postProcess")
	if fd != nil {
		var names []string
		ast.Inspect(fd.Body, func(n ast.Node) bool {
			as, ok := n.(*ast.AssignStmt)
			if !ok || len(as.Lhs) != 1 || len(as.Rhs) != 1 || as.Tok != token.DEFINE {
				return true
			}
			if id, ok := as.Lhs[0].(*ast.Ident); !ok || id.Name != "outsPath" {
				return true
			}
			if call, ok := as.Rhs[0].(*ast.CallExpr); ok && len(call.Args) == 2 {
				if id, ok := call.Args[0].(*ast.Ident); ok && id.Name == "pipestancePath" {
					if s, ok := strLit(call.Args[1]); ok {
						names = append(names, s)
					}
				}
			}
			return true
		})
		if len(names) != 1 {
			e.fail("postProcess: expected exactly one outsPath := path.Join(pipestancePath, <literal>)")
		} else {
			e.defBytes("outs_dir_name", names[0])
		}
	}

	// max_links: the bound of the Readlink loop in copyOutSymlink
	if cs := e.funcDecl("martian/core/post_process.go", "copyOutSymlink"); cs != nil {
		found := -1
		ast.Inspect(cs.Body, func(n ast.Node) bool {
			if vs, ok := n.(*ast.ValueSpec); ok && len(vs.Names) == 1 && vs.Names[0].Name == "maxLinks" && len(vs.Values) == 1 {
				if bl, ok := vs.Values[0].(*ast.BasicLit); ok && bl.Kind == token.INT {
					if v, err := strconv.Atoi(bl.Value); err == nil {
						found = v
					}
				}
			}
			return true
		})
		if found < 0 {
			e.fail("copyOutSymlink: const maxLinks = <int> not found (the Readlink loop must be bounded)")
		} else {
			fmt.Fprintf(&e.out, "Definition max_links : N := %d%%N.\n", found)
		}
	}

	fl := e.funcDecl("martian/syntax/compile_params.go", "IsLegalUnixFilename")
	if fl == nil {
		return
	}
	maxLen := -1
	var reserved []string
	var forbidden []byte
	sawEmpty := false
	shapeOK := true
	ast.Inspect(fl.Body, func(n ast.Node) bool {
		be, ok := n.(*ast.BinaryExpr)
		if !ok {
			return true
		}
		switch be.Op {
		case token.GTR:
			// len(name) > N
			if call, ok := be.X.(*ast.CallExpr); ok {
				if id, ok := call.Fun.(*ast.Ident); ok && id.Name == "len" {
					if bl, ok := be.Y.(*ast.BasicLit); ok && bl.Kind == token.INT {
						v, err := strconv.Atoi(bl.Value)
						if err != nil || maxLen != -1 {
							shapeOK = false
						}
						maxLen = v
					}
				}
			}
		case token.EQL:
			if id, ok := be.X.(*ast.Ident); ok {
				switch id.Name {
				case "name":
					if s, ok := strLit(be.Y); ok {
						if s == "" {
							sawEmpty = true
						} else {
							reserved = append(reserved, s)
						}
					} else {
						shapeOK = false
					}
				case "c":
					if r, ok := charLit(be.Y); ok && r < 0x80 {
						forbidden = append(forbidden, byte(r))
					} else if bl, ok := be.Y.(*ast.BasicLit); ok && bl.Kind == token.INT && bl.Value == "0" {
						forbidden = append(forbidden, 0)
					} else {
						shapeOK = false
					}
				}
			}
		case token.LSS, token.LEQ, token.GEQ, token.NEQ:
			shapeOK = false
		}
		return true
	})
	if !shapeOK || maxLen < 0 || !sawEmpty {
		e.fail("IsLegalUnixFilename: unexpected shape (length limit, empty-name test or comparisons changed)")
		return
	}
	fmt.Fprintf(&e.out, "Definition legal_name_max_len : N := %d%%N.\n", maxLen)
	e.defBytesList("legal_name_reserved", reserved)
	e.defBytes("legal_name_forbidden", string(forbidden))
}
