module verifharness

go 1.23

require github.com/martian-lang/martian v0.0.0

require golang.org/x/sys v0.30.0 // indirect

replace github.com/martian-lang/martian => /repo
