// Package astdump walks the REAL compiled syntax.Ast of martian (exported
// fields only) and renders it as a value of the Gallina types of
// coq/Mro/Ast.v, either as a Coq term (for cases.v files evaluated by the
// kernel) or as a compact one-field transport string read by
// ocaml/src/ast.ml.  Both renderings come from the same generic tree, so
// they cannot disagree.
//
// Transport grammar (no spaces):
//
//	value := Name | Name '(' value {',' value} ')' | '[' [value {',' value}] ']'
//	       | '$' hex* (bytes) | '#' ['-'] digits (Z) | '%' digits (N)
//
// Constructor names are those of Mro/Ast.v (records use their mk_ constructor);
// bool is true/false, option None/Some(v), pairs P(a,b).
package astdump

import (
	"encoding/hex"
	"fmt"
	"math"
	"math/big"
	"sort"
	"strings"

	"github.com/martian-lang/martian/martian/syntax"
)

// Sx is the generic tree.
type Sx struct {
	K    byte // 'c' constructor, 'l' list, 'b' bytes, 'z' Z, 'n' N, 'p' pair
	Name string
	Args []Sx
	S    string
	I    *big.Int
}

func C(name string, args ...Sx) Sx { return Sx{K: 'c', Name: name, Args: args} }
func L(items []Sx) Sx              { return Sx{K: 'l', Args: items} }
func B(s string) Sx                { return Sx{K: 'b', S: s} }
func Z(i int64) Sx                 { return Sx{K: 'z', I: big.NewInt(i)} }
func ZB(i *big.Int) Sx             { return Sx{K: 'z', I: i} }
func N(i int64) Sx                 { return Sx{K: 'n', I: big.NewInt(i)} }
func P(a, b Sx) Sx                 { return Sx{K: 'p', Args: []Sx{a, b}} }
func Bool(b bool) Sx {
	if b {
		return C("true")
	}
	return C("false")
}
func None() Sx     { return C("None") }
func Some(v Sx) Sx { return C("Some", v) }
func Bytes(ss []string) Sx {
	out := make([]Sx, len(ss))
	for i, s := range ss {
		out[i] = B(s)
	}
	return L(out)
}

// Transport renders the one-field transport form.
func (s Sx) Transport() string {
	var sb strings.Builder
	s.transport(&sb)
	return sb.String()
}

func (s Sx) transport(w *strings.Builder) {
	switch s.K {
	case 'c', 'p':
		name := s.Name
		if s.K == 'p' {
			name = "P"
		}
		w.WriteString(name)
		if len(s.Args) > 0 {
			w.WriteByte('(')
			for i, a := range s.Args {
				if i > 0 {
					w.WriteByte(',')
				}
				a.transport(w)
			}
			w.WriteByte(')')
		}
	case 'l':
		w.WriteByte('[')
		for i, a := range s.Args {
			if i > 0 {
				w.WriteByte(',')
			}
			a.transport(w)
		}
		w.WriteByte(']')
	case 'b':
		w.WriteByte('$')
		w.WriteString(hex.EncodeToString([]byte(s.S)))
	case 'z':
		w.WriteByte('#')
		w.WriteString(s.I.String())
	case 'n':
		w.WriteByte('%')
		w.WriteString(s.I.String())
	}
}

// Coq renders a Gallina term (needs string_scope for the hex literals, and
// Lib.Bytes for unhex).
func (s Sx) Coq() string {
	var sb strings.Builder
	s.coq(&sb)
	return sb.String()
}

func (s Sx) coq(w *strings.Builder) {
	switch s.K {
	case 'c':
		if len(s.Args) == 0 {
			w.WriteString(s.Name)
			return
		}
		w.WriteByte('(')
		w.WriteString(s.Name)
		for _, a := range s.Args {
			w.WriteByte(' ')
			a.coq(w)
		}
		w.WriteByte(')')
	case 'p':
		w.WriteByte('(')
		s.Args[0].coq(w)
		w.WriteString(", ")
		s.Args[1].coq(w)
		w.WriteByte(')')
	case 'l':
		w.WriteByte('[')
		for i, a := range s.Args {
			if i > 0 {
				w.WriteString("; ")
			}
			a.coq(w)
		}
		w.WriteByte(']')
	case 'b':
		if s.S == "" {
			w.WriteString("(@nil byte)")
		} else {
			fmt.Fprintf(w, "(unhex \"%s\")", hex.EncodeToString([]byte(s.S)))
		}
	case 'z':
		fmt.Fprintf(w, "(%s)%%Z", s.I.String())
	case 'n':
		fmt.Fprintf(w, "%s%%N", s.I.String())
	}
}

// Dyadic returns the exact value of a finite float64 as m * 2^e with m odd
// (or 0, 0).
func Dyadic(f float64) (*big.Int, int64) {
	if f == 0 || math.IsNaN(f) || math.IsInf(f, 0) {
		return big.NewInt(0), 0
	}
	fr, ex := math.Frexp(f) // f = fr * 2^ex, |fr| in [0.5, 1)
	m := int64(math.Ldexp(fr, 53))
	e := int64(ex - 53)
	for m&1 == 0 {
		m >>= 1
		e++
	}
	return big.NewInt(m), e
}

func dy(f float64) Sx {
	m, e := Dyadic(f)
	return P(ZB(m), Z(e))
}

func kind(k syntax.FileKind) Sx {
	switch k {
	case syntax.KindIsNotFile:
		return C("KindIsNotFile")
	case syntax.KindMayContainPaths:
		return C("KindMayContainPaths")
	case syntax.KindIsFile:
		return C("KindIsFile")
	case syntax.KindIsDirectory:
		return C("KindIsDirectory")
	}
	panic(fmt.Sprintf("astdump: unknown FileKind %d", int(k)))
}

func tid(t syntax.TypeId) Sx {
	return C("mk_tid", B(t.Tname), N(int64(t.ArrayDim)), N(int64(t.MapDim)))
}

type dumper struct{ a *syntax.Ast }

// baseFile: the base (element) type named by the id is file, path or a user
// file type.  complex: the full type is not a builtin or user file type.
func (d *dumper) baseFile(t syntax.TypeId) bool {
	b := d.a.TypeTable.Get(syntax.TypeId{Tname: t.Tname})
	return b != nil && b.IsFile() == syntax.KindIsFile
}

func (d *dumper) complex(t syntax.TypeId) bool {
	switch d.a.TypeTable.Get(t).(type) {
	case *syntax.BuiltinType, *syntax.UserType:
		return false
	}
	return true
}

func (d *dumper) member(m *syntax.StructMember) Sx {
	return C("mk_member", B(m.Id), tid(m.Tname), B(m.OutName), B(m.Help),
		kind(m.IsFile()), Bool(d.complex(m.Tname)), Bool(d.baseFile(m.Tname)))
}

func (d *dumper) inParams(ps *syntax.InParams) Sx {
	var out []Sx
	if ps != nil {
		for _, p := range ps.List {
			out = append(out, C("mk_in", B(p.Id), tid(p.Tname), B(p.Help),
				kind(p.IsFile()), Bool(d.baseFile(p.Tname))))
		}
	}
	return L(out)
}

func (d *dumper) outParams(ps *syntax.OutParams) Sx {
	var out []Sx
	if ps != nil {
		for _, p := range ps.List {
			out = append(out, d.member(&p.StructMember))
		}
	}
	return L(out)
}

// Exp renders a value expression of a compiled Ast.
func Exp(e syntax.Exp) Sx {
	switch e := e.(type) {
	case *syntax.ArrayExp:
		out := make([]Sx, len(e.Value))
		for i, v := range e.Value {
			out[i] = Exp(v)
		}
		return C("EArray", L(out))
	case *syntax.MapExp:
		keys := make([]string, 0, len(e.Value))
		for k := range e.Value {
			keys = append(keys, k)
		}
		sort.Strings(keys)
		out := make([]Sx, len(keys))
		for i, k := range keys {
			out[i] = P(B(k), Exp(e.Value[k]))
		}
		mk := C("MapKindMap")
		if e.Kind == syntax.KindStruct {
			mk = C("MapKindStruct")
		}
		return C("EMap", mk, L(out))
	case *syntax.StringExp:
		return C("EString", B(e.Value))
	case *syntax.BoolExp:
		return C("EBool", Bool(e.Value))
	case *syntax.IntExp:
		return C("EInt", Z(e.Value))
	case *syntax.FloatExp:
		m, x := Dyadic(e.Value)
		return C("EFloat", ZB(m), Z(x))
	case *syntax.NullExp:
		return C("ENull")
	case *syntax.RefExp:
		k := C("RefCall")
		if e.Kind == syntax.KindSelf {
			k = C("RefSelf")
		}
		if len(e.Forks) != 0 {
			panic("astdump: RefExp.Forks set (resolved call graph, not a compiled Ast)")
		}
		return C("ERef", k, B(e.Id), B(e.OutputId))
	case *syntax.SplitExp:
		return C("ESplit", Exp(e.Value))
	}
	panic(fmt.Sprintf("astdump: expression %T does not occur in a compiled Ast", e))
}

func binds(bs *syntax.BindStms) Sx {
	var out []Sx
	if bs != nil {
		for _, b := range bs.List {
			out = append(out, C("mk_bind", B(b.Id), Exp(b.Exp), tid(b.Tname)))
		}
	}
	return L(out)
}

func call(c *syntax.CallStm) Sx {
	mods := None()
	if m := c.Modifiers; m != nil {
		mods = Some(C("mk_mods", binds(m.Bindings), Bool(m.Local), Bool(m.Preflight), Bool(m.Volatile)))
	}
	mode := "ModeSingleCall"
	if c.Mapping != nil {
		switch c.Mapping.CallMode() {
		case syntax.ModeArrayCall:
			mode = "ModeArrayCall"
		case syntax.ModeMapCall:
			mode = "ModeMapCall"
		case syntax.ModeUnknownMapCall:
			mode = "ModeUnknownMapCall"
		case syntax.ModeNullMapCall:
			mode = "ModeNullMapCall"
		}
	}
	return C("mk_call", B(c.Id), B(c.DecId), mods, binds(c.Bindings), C(mode))
}

func (d *dumper) callable(c syntax.Callable) Sx {
	switch c := c.(type) {
	case *syntax.Stage:
		var retain []string
		if c.Retain != nil {
			for _, r := range c.Retain.Params {
				retain = append(retain, r.Id)
			}
		}
		lang := "LangUnknown"
		path := ""
		var args []string
		if c.Src != nil {
			switch c.Src.Type {
			case syntax.PythonStage:
				lang = "LangPython"
			case syntax.ExecStage:
				lang = "LangExec"
			case syntax.CompiledStage:
				lang = "LangCompiled"
			}
			path, args = c.Src.Path, c.Src.Args
		}
		res := None()
		if r := c.Resources; r != nil {
			res = Some(C("mk_res", B(r.Special), dy(float64(r.Threads)), dy(float64(r.MemGB)),
				dy(float64(r.VMemGB)), Bool(r.StrictVolatile)))
		}
		return C("CStage", C("mk_stage", B(c.Id), d.inParams(c.InParams), d.outParams(c.OutParams),
			Bool(c.Split), d.inParams(c.ChunkIns), d.outParams(c.ChunkOuts), Bytes(retain),
			C("mk_src", C(lang), B(path), Bytes(args)), res))
	case *syntax.Pipeline:
		calls := make([]Sx, len(c.Calls))
		for i, cs := range c.Calls {
			calls[i] = call(cs)
		}
		ret := None()
		if c.Ret != nil {
			ret = Some(binds(c.Ret.Bindings))
		}
		var retain []Sx
		if c.Retain != nil {
			for _, r := range c.Retain.Refs {
				retain = append(retain, Exp(r))
			}
		}
		return C("CPipeline", C("mk_pipeline", B(c.Id), d.inParams(c.InParams), d.outParams(c.OutParams),
			L(calls), ret, L(retain)))
	}
	panic(fmt.Sprintf("astdump: callable %T", c))
}

// Ast renders a compiled syntax.Ast as a Mro.Ast.ast.
func Ast(a *syntax.Ast) Sx {
	d := &dumper{a}
	users := make([]string, len(a.UserTypes))
	for i, u := range a.UserTypes {
		users[i] = u.Id
	}
	structs := make([]Sx, len(a.StructTypes))
	for i, s := range a.StructTypes {
		ms := make([]Sx, len(s.Members))
		for j, m := range s.Members {
			ms[j] = d.member(m)
		}
		structs[i] = C("mk_struct", B(s.Id), L(ms), kind(s.IsFile()))
	}
	var callables []Sx
	compiled := a.Callables != nil && a.Callables.Table != nil
	if a.Callables != nil {
		for _, c := range a.Callables.List {
			callables = append(callables, d.callable(c))
		}
	}
	cs := None()
	if a.Call != nil {
		cs = Some(call(a.Call))
	}
	return C("mk_ast", Bytes(users), L(structs), L(callables), Bool(compiled), cs)
}
