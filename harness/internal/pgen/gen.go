package pgen

import (
	"fmt"

	"verifharness/internal/hx"
)

// Callable signature seen by callers.
type sig struct {
	Name      string
	Ins, Outs []Field
	IsStage   bool
	// HasMap: the callable (transitively) contains a mapped call.
	HasMap bool
	// TaintedOuts: outputs whose value is (built from) the merged outputs
	// of a mapped call.
	TaintedOuts map[string]bool
	// AllDep[q]: every stage call inside (transitively) has an argument that
	// depends on input q.  A pipeline is only mapped over a collection sized
	// at run time through such an input: a stage that does not depend on the
	// mapped element still runs when the collection is empty and its outputs
	// merge schedule-dependently (recorded findings).
	AllDep map[string]bool
	// ConstOuts: some output is bound to a constant.  Mapping such a pipeline
	// over a collection sized at run time inside another mapped pipeline
	// loses the copies (recorded finding), so the main stream only maps it
	// over literal collections.
	ConstOuts bool
	// HasKeyedMap: contains (transitively) a call mapped over a typed map.
	// Such a pipeline cannot be mapped over a typed map: its outputs would
	// be a map of maps, which is not a type (the compiler rejects it).
	HasKeyedMap bool
	// NullableOuts: outputs that are null when a call inside is disabled at
	// run time.  The runtime refuses a disabled modifier bound to null
	// ("disabled is bound to a null value, which the compiler should not
	// allow"), so such values are never bound to bool parameters.
	NullableOuts map[string]bool
}

// A source is tainted when its value is (built from) the merged outputs of
// a mapped call.  Known defects of the runtime (see DESIGN.md, findings on
// nested mapped calls) make mapping a pipeline that itself contains mapped
// calls over such a value fail; the main stream avoids exactly that shape,
// and the known-findings corpus keeps the failing programs.
type src struct {
	E       *Exp
	T       *Ty
	Tainted bool
	// Params: the inputs of the enclosing pipeline this value depends on.
	Params map[string]bool
	// NoSplit: output of a sub-pipeline call with a disabled modifier; a
	// mapped call over it makes mrp panic (recorded finding), so it is not
	// used as a split source in the main stream.
	NoSplit bool
	// Nullable: output of a call with a disabled modifier (or derived from one)
	Nullable bool
}

// Opts tunes the shape grammar.
type Opts struct {
	MaxDepth    int  // pipeline nesting levels (1..3)
	Disabled    bool // allow disabled modifiers
	MapCalls    bool
	SplitStages bool
	Preflight   bool // pipelines may start with a preflight call
	NestedMaps  bool // a pipeline containing mapped calls may itself be mapped
	EmptyOuts   bool // stages may return empty collections
	FreeNested  bool // no restriction on what is bound into pipelines that contain mapped calls
	// DisabledHeavy: most calls carry a disabled modifier bound to a value
	// only known at run time, through up to four levels of nesting
	DisabledHeavy bool
	NullOuts    bool // stages may return null for an output
	Files       bool
}

func DefaultOpts() Opts {
	return Opts{MaxDepth: 3, Disabled: true, MapCalls: true, SplitStages: true, NullOuts: true, Preflight: true,
		NestedMaps: true, EmptyOuts: true}
}

// TameNested and WildFlat partition the shape space: nested mapped calls
// combined with collections that are empty or null at run time, or with
// run-time disabling, hit a family of recorded runtime defects (DESIGN.md
// section 7, corpus/known); each feature is exercised on its own side.
func TameNested() Opts {
	o := DefaultOpts()
	o.Disabled, o.NullOuts, o.EmptyOuts = false, false, false
	return o
}

// WildNested: everything at once.
func WildNested() Opts {
	o := DefaultOpts()
	o.FreeNested = true
	return o
}

// DisabledHeavy: run-time disabling everywhere, deep nesting, no nested maps.
func DisabledHeavy() Opts {
	o := DefaultOpts()
	o.NestedMaps = false
	o.DisabledHeavy = true
	o.MaxDepth = 4
	return o
}

func WildFlat() Opts {
	o := DefaultOpts()
	o.NestedMaps = false
	return o
}

type G struct {
	pfStage string // name of the preflight stage of this program ("" = none)
	// noTaint: expFor must not use tainted sources (set while binding the
	// inputs of a callable that contains mapped calls)
	noTaint  bool
	nonEmpty bool // randValue: collections have at least one element, no nulls
	r        *hx.Rng
	o        Opts
	structs  map[string][]Field
	counter  int64
	Stats    map[string]int
}

func NewG(r *hx.Rng, o Opts) *G {
	return &G{r: r, o: o, structs: map[string][]Field{}, Stats: map[string]int{}}
}

func (g *G) uniq() int64 { g.counter++; return g.counter }

var baseStructs = []StructDef{
	{"S1", []Field{{"a", TInt}, {"b", TStr}}},
	{"S2", []Field{{"a", TInt}, {"b", TStr}, {"c", TFloat}, {"xs", TArr(TInt)}}},
	{"S3", []Field{{"one", TStruct("S1")}, {"many", TArr(TStruct("S1"))}, {"m", TMap(TInt)}}},
}

func (g *G) pool() []*Ty {
	s1, s2, s3 := TStruct("S1"), TStruct("S2"), TStruct("S3")
	return []*Ty{TInt, TInt, TInt, TStr, TStr, TStr, TBool, TFloat, s1, s1, s2,
		TArr(TInt), TArr(TInt), TArr(TStr), TArr(s1), TArr(s1), TArr(s2),
		TMap(TInt), TMap(s1), TArr(TArr(TInt)), s3}
}

func (g *G) randType() *Ty { return hx.Pick(g.r, g.pool()) }

// fieldsOf returns the fields of a struct type (callable output structs included).
func (g *G) fieldsOf(name string) []Field { return g.structs[name] }

// randValue builds a literal value of type t (ints are globally distinct so
// that every fork of a mapped call sees different arguments).
func (g *G) randValue(t *Ty, depth int) hx.JV {
	if depth > 0 && !g.nonEmpty && g.r.Intn(12) == 0 {
		return hx.JNull()
	}
	switch t.K {
	case "int":
		return hx.JInt(g.uniq())
	case "float":
		return hx.JNum(bigInt(g.uniq()*10+5), -1)
	case "bool":
		return hx.JBool(g.r.Bool())
	case "string", "file":
		return hx.JStr(fmt.Sprintf("s%d", g.uniq()))
	case "struct":
		var o []hx.JKV
		for _, f := range g.fieldsOf(t.Name) {
			o = append(o, hx.JKV{Key: f.Name, Val: g.randValue(f.T, depth+1)})
		}
		return hx.JObj(o)
	case "arr":
		n := g.r.Intn(4)
		if g.nonEmpty && n == 0 {
			n = 1
		}
		a := make([]hx.JV, n)
		for i := range a {
			a[i] = g.randValue(t.Elem, depth+1)
		}
		return hx.JArr(a)
	case "tmap":
		n := g.r.Intn(4)
		if g.nonEmpty && n == 0 {
			n = 1
		}
		var o []hx.JKV
		for i := 0; i < n; i++ {
			o = append(o, hx.JKV{Key: fmt.Sprintf("k%d", i), Val: g.randValue(t.Elem, depth+1)})
		}
		return hx.JObj(o)
	}
	return hx.JNull()
}

// litExp turns a value into literal expression syntax, using the type to
// print struct literals where the type is a struct.
func (g *G) litExp(t *Ty, v hx.JV) *Exp {
	switch v.K {
	case '[':
		e := &Exp{K: "arr"}
		for _, x := range v.A {
			e.Items = append(e.Items, g.litExp(t.Elem, x))
		}
		return e
	case '{':
		e := &Exp{K: "obj"}
		for _, kv := range v.O {
			et := t.Elem
			if t.K == "struct" {
				for _, f := range g.fieldsOf(t.Name) {
					if f.Name == kv.Key {
						et = f.T
					}
				}
			}
			e.Keys = append(e.Keys, kv.Key)
			e.Items = append(e.Items, g.litExp(et, kv.Val))
		}
		if t.K == "struct" {
			e.K = "struct"
		}
		return e
	}
	return Lit(v)
}

// assignable: can a value of type from be bound to a parameter of type to.
func (g *G) assignable(to, from *Ty) bool {
	if to.Eq(from) {
		return true
	}
	switch {
	case to.K == "float" && from.K == "int":
		return true
	case to.K == "arr" && from.K == "arr", to.K == "tmap" && from.K == "tmap":
		return g.assignable(to.Elem, from.Elem)
	case to.K == "struct" && from.K == "struct":
		// narrowing: every field of to exists in from with an assignable type
		ff := g.fieldsOf(from.Name)
		for _, tf := range g.fieldsOf(to.Name) {
			ok := false
			for _, f := range ff {
				if f.Name == tf.Name && g.assignable(tf.T, f.T) {
					ok = true
				}
			}
			if !ok {
				return false
			}
		}
		return len(g.fieldsOf(to.Name)) > 0
	}
	return false
}

// projections of a source through struct fields (elementwise through
// arrays and typed maps), up to the given depth.
func (g *G) withProjections(s src, depth int) []src {
	out := []src{s}
	if depth == 0 {
		return out
	}
	var wrap []string
	t := s.T
	for t.K == "arr" || t.K == "tmap" {
		wrap = append(wrap, t.K)
		t = t.Elem
	}
	if t.K != "struct" {
		return out
	}
	for _, f := range g.fieldsOf(t.Name) {
		ft := f.T
		for i := len(wrap) - 1; i >= 0; i-- {
			if wrap[i] == "arr" {
				ft = TArr(ft)
			} else {
				ft = TMap(ft)
			}
		}
		if !validTy(ft) {
			continue
		}
		e := *s.E
		e.Path = append(append([]string(nil), s.E.Path...), f.Name)
		out = append(out, g.withProjections(src{E: &e, T: ft, Tainted: s.Tainted, NoSplit: s.NoSplit, Nullable: s.Nullable, Params: s.Params}, depth-1)...)
	}
	return out
}

// expFor builds an expression of (something assignable to) type t.
func (g *G) expFor(t *Ty, srcs []src, depth int) *Exp {
	var cands []src
	for _, s := range srcs {
		if g.assignable(t, s.T) && !(g.noTaint && s.Tainted) && !(s.Nullable && baseBool(t)) {
			cands = append(cands, s)
		}
	}
	if len(cands) > 0 && g.r.Intn(5) != 0 {
		g.Stats["bind_ref"]++
		c := hx.Pick(g.r, cands)
		// half of the time insist on a reference that needs a conversion
		// (struct narrowing, int -> float), if there is one
		if g.r.Bool() {
			var conv []src
			for _, x := range cands {
				if !x.T.Eq(t) {
					conv = append(conv, x)
				}
			}
			if len(conv) > 0 {
				c = hx.Pick(g.r, conv)
			}
		}
		if !c.T.Eq(t) {
			g.Stats["bind_conversion"]++
		}
		if len(c.E.Path) > 0 {
			g.Stats["bind_projection"]++
		}
		return c.E
	}
	if depth < 2 && g.r.Intn(3) == 0 {
		switch t.K {
		case "arr":
			e := &Exp{K: "arr"}
			n := g.r.Intn(4)
			if g.nonEmpty && n == 0 {
				n = 1
			}
			for i := 0; i < n; i++ {
				e.Items = append(e.Items, g.expFor(t.Elem, srcs, depth+1))
			}
			g.Stats["bind_array_literal"]++
			return e
		case "tmap":
			e := &Exp{K: "obj"}
			n := g.r.Intn(4)
			if g.nonEmpty && n == 0 {
				n = 1
			}
			for i := 0; i < n; i++ {
				e.Keys = append(e.Keys, fmt.Sprintf("k%d", i))
				e.Items = append(e.Items, g.expFor(t.Elem, srcs, depth+1))
			}
			g.Stats["bind_map_literal"]++
			return e
		case "struct":
			e := &Exp{K: "struct"}
			for _, f := range g.fieldsOf(t.Name) {
				e.Keys = append(e.Keys, f.Name)
				e.Items = append(e.Items, g.expFor(f.T, srcs, depth+1))
			}
			g.Stats["bind_struct_literal"]++
			return e
		}
	}
	g.Stats["bind_literal"]++
	return g.litExp(t, g.randValue(t, 0))
}

// ---------------------------------------------------------------- stages

func (g *G) sexpFor(t *Ty, args []Field, chunkOut *Field, depth int) *SExp {
	if g.o.NullOuts && g.r.Intn(14) == 0 {
		return &SExp{K: "lit", Lit: hx.JNull()}
	}
	if chunkOut != nil && t.K == "arr" && t.Elem.Eq(chunkOut.T) && g.r.Intn(4) != 0 {
		return &SExp{K: "chunkouts", Name: chunkOut.Name}
	}
	var same []Field
	for _, a := range args {
		if a.T.Eq(t) {
			same = append(same, a)
		}
	}
	if len(same) > 0 && g.r.Intn(3) != 0 {
		return &SExp{K: "arg", Name: hx.Pick(g.r, same).Name}
	}
	if depth < 3 {
		switch t.K {
		case "arr":
			e := &SExp{K: "arr"}
			n := g.r.Intn(4)
			if !g.o.EmptyOuts && n == 0 {
				n = 1
			}
			for i := 0; i < n; i++ {
				if i == 0 && n > 1 && g.o.NullOuts && g.r.Intn(3) == 0 {
					// a null first element followed by real ones
					e.Items = append(e.Items, &SExp{K: "lit", Lit: hx.JNull()})
					g.Stats["stage_array_leading_null"]++
					continue
				}
				e.Items = append(e.Items, g.sexpFor(t.Elem, args, nil, depth+1))
			}
			return e
		case "tmap":
			e := &SExp{K: "obj"}
			n := g.r.Intn(4)
			if !g.o.EmptyOuts && n == 0 {
				n = 1
			}
			for i := 0; i < n; i++ {
				e.Keys = append(e.Keys, fmt.Sprintf("k%d", i))
				e.Items = append(e.Items, g.sexpFor(t.Elem, args, nil, depth+1))
			}
			return e
		case "struct":
			e := &SExp{K: "obj"}
			for _, f := range g.fieldsOf(t.Name) {
				e.Keys = append(e.Keys, f.Name)
				e.Items = append(e.Items, g.sexpFor(f.T, args, nil, depth+1))
			}
			return e
		}
	}
	if !g.o.EmptyOuts {
		g.nonEmpty = true
		defer func() { g.nonEmpty = false }()
	}
	return &SExp{K: "lit", Lit: g.randValue(t, 1)}
}

func (g *G) genStage(name string) *Stage {
	s := &Stage{Name: name, MainOuts: map[string]*SExp{}, ChunkOutsB: map[string]*SExp{}}
	for i, n := 0, 1+g.r.Intn(3); i < n; i++ {
		s.Ins = append(s.Ins, Field{fmt.Sprintf("i%d", i), g.randType()})
	}
	for i, n := 0, 1+g.r.Intn(2); i < n; i++ {
		s.Outs = append(s.Outs, Field{fmt.Sprintf("o%d", i), g.randType()})
	}
	if g.o.Disabled && (g.r.Intn(4) == 0 || (g.o.DisabledHeavy && g.r.Intn(3) != 0)) {
		s.Outs = append(s.Outs, Field{"flag", TBool})
	}
	var chunkOut *Field
	if g.o.SplitStages && g.r.Intn(3) == 0 {
		s.Split = true
		g.Stats["split_stage"]++
		var arrIns []Field
		for _, f := range s.Ins {
			if f.T.K == "arr" {
				arrIns = append(arrIns, f)
			}
		}
		if len(arrIns) > 0 && g.r.Bool() {
			a := hx.Pick(g.r, arrIns)
			s.ChunkFrom = a.Name
			s.ChunkIns = []Field{{"ci", a.T.Elem}}
		} else {
			s.ChunkIns = []Field{{"ci", TInt}}
			for i, n := 0, g.r.Intn(4); i < n; i++ {
				s.ChunkConst = append(s.ChunkConst, hx.JObj([]hx.JKV{{Key: "ci", Val: hx.JInt(g.uniq())}}))
			}
		}
		co := Field{"co", g.randType()}
		s.ChunkOuts = []Field{co}
		chunkOut = &co
		s.ChunkOutsB["co"] = g.sexpFor(co.T, append(append([]Field(nil), s.Ins...), s.ChunkIns...), nil, 0)
		if g.r.Bool() {
			// make it likely that some join output collects the chunk outs
			s.Outs[0].T = TArr(co.T)
		}
	}
	for _, o := range s.Outs {
		if o.Name == "flag" {
			v := g.r.Bool()
			if g.o.DisabledHeavy {
				v = g.r.Intn(4) == 0 // mostly enabled, or hardly anything would run
			}
			s.MainOuts[o.Name] = &SExp{K: "lit", Lit: hx.JBool(v)}
			continue
		}
		s.MainOuts[o.Name] = g.sexpFor(o.T, s.Ins, chunkOut, 0)
	}
	g.structs[name] = s.Outs
	return s
}

// ---------------------------------------------------------------- pipelines

// hasMap: does the type contain a typed map (outside of struct fields)?
func hasMap(t *Ty) bool {
	for t != nil {
		if t.K == "tmap" {
			return true
		}
		t = t.Elem
	}
	return false
}

// validTy: MRO types are T[]* or map<T[]*>[]* - at most one typed-map level.
func validTy(t *Ty) bool {
	n := 0
	for x := t; x != nil; x = x.Elem {
		if x.K == "tmap" {
			n++
		}
	}
	return n <= 1
}

func usedSelf(e *Exp, used map[string]bool) {
	if e == nil {
		return
	}
	if e.K == "ref" && e.Src == "self" {
		used[e.Out] = true
	}
	for _, x := range e.Items {
		usedSelf(x, used)
	}
}

func wrapTy(t *Ty, mode string) *Ty {
	switch mode {
	case "arr":
		return TArr(t)
	case "map":
		return TMap(t)
	}
	return t
}

func (g *G) genPipeline(name string, callables []sig) (*Pipeline, sig) {
	p := &Pipeline{Name: name}
	me := sig{Name: name, TaintedOuts: map[string]bool{}, NullableOuts: map[string]bool{}}
	for i, n := 0, 1+g.r.Intn(3); i < n; i++ {
		p.Ins = append(p.Ins, Field{fmt.Sprintf("p%d", i), g.randType()})
	}
	if g.o.Disabled && (g.r.Intn(3) == 0 || (g.o.DisabledHeavy && g.r.Intn(4) != 0)) {
		p.Ins = append(p.Ins, Field{"off", TBool})
	}
	var srcs []src
	for _, f := range p.Ins {
		srcs = append(srcs, g.withProjections(src{E: &Exp{K: "ref", Src: "self", Out: f.Name}, T: f.T,
			Params: map[string]bool{f.Name: true}}, 2)...)
	}
	var pfUses *Exp
	hasPf := false
	if g.o.Preflight && g.pfStage != "" && g.r.Intn(2) == 0 {
		hasPf = true
		// a preflight call: inputs may only be literals or pipeline inputs
		var e *Exp
		for _, f := range p.Ins {
			if f.T.K == "int" && g.r.Bool() {
				e = &Exp{K: "ref", Src: "self", Out: f.Name}
			}
		}
		if e == nil {
			e = Lit(hx.JInt(g.uniq()))
		}
		p.Calls = append(p.Calls, &Call{ID: g.pfStage, Callee: g.pfStage, Preflight: true,
			Binds: []Bind{{Param: "x", E: e}}})
		g.Stats["preflight_call"]++
		pfUses = e
	}
	allDepBroken := map[string]bool{}
	usedCallee := map[string]int{}
	ncalls := 1 + g.r.Intn(4)
	for ci := 0; ci < ncalls; ci++ {
		callee := hx.Pick(g.r, callables)
		c := &Call{ID: callee.Name, Callee: callee.Name}
		usedCallee[callee.Name]++
		if usedCallee[callee.Name] > 1 || g.r.Intn(5) == 0 {
			c.ID = fmt.Sprintf("%s_A%d", callee.Name, ci)
			g.Stats["aliased_call"]++
		}
		// binding the inputs of a callable that contains mapped calls: no
		// tainted sources, no empty literal collections (see type src)
		g.noTaint, g.nonEmpty = callee.HasMap && !g.o.FreeNested, callee.HasMap && !g.o.FreeNested
		if g.o.MapCalls && g.r.Intn(5) < 2 && (g.o.NestedMaps || !callee.HasMap) {
			c.Mapped = "arr"
			if g.r.Intn(3) == 0 && !callee.HasKeyedMap {
				c.Mapped = "map"
				for _, o := range callee.Outs {
					if hasMap(o.T) {
						c.Mapped = "arr"
					}
				}
			}
		}
		nsplit := 0
		// shape shared by literal split arguments of this call
		litLen := 1 + g.r.Intn(3) // split literals must be non-empty (grammar)
		usedRefSplit := false
		for pi, in := range callee.Ins {
			b := Bind{Param: in.Name}
			wantSplit := c.Mapped != "" && (g.r.Bool() || (pi == len(callee.Ins)-1 && nsplit == 0))
			if wantSplit {
				ct := wrapTy(in.T, c.Mapped)
				if c.Mapped == "map" && hasMap(in.T) {
					// map<map<...>> is not a type; the compiler accepts the
					// binding and the resolver then panics (recorded finding)
					wantSplit = false
				}
				var cands []src
				if wantSplit && !usedRefSplit && nsplit == 0 {
					for _, s := range srcs {
						if g.assignable(ct, s.T) && !(g.noTaint && s.Tainted) && !s.NoSplit && !(s.Nullable && baseBool(ct)) {
							cands = append(cands, s)
						}
					}
				}
				if !wantSplit {
					// fall through to the plain binding below
				} else if len(cands) > 0 && g.r.Intn(4) != 0 {
					b.E = hx.Pick(g.r, cands).E
					usedRefSplit = true
					g.Stats["split_over_reference"]++
				} else if !usedRefSplit {
					// literal collection of litLen elements (same keys for every split arg)
					e := &Exp{K: "arr"}
					if c.Mapped == "map" {
						e.K = "obj"
					}
					for i := 0; i < litLen; i++ {
						e.Keys = append(e.Keys, fmt.Sprintf("k%d", i))
						e.Items = append(e.Items, g.expFor(in.T, srcs, 1))
					}
					b.E = e
					g.Stats["split_over_literal"]++
					g.Stats[fmt.Sprintf("split_literal_len_%d", litLen)]++
				} else {
					wantSplit = false
				}
				if wantSplit {
					b.Split = true
					nsplit++
				}
			}
			if b.E == nil {
				b.E = g.expFor(in.T, srcs, 0)
			}
			c.Binds = append(c.Binds, b)
		}
		if c.Mapped != "" && nsplit == 0 {
			c.Mapped = ""
		}
		if c.Mapped != "" {
			g.Stats["map_call_"+c.Mapped]++
		}
		wantDisabled := g.o.Disabled && g.r.Intn(4) == 0
		if g.o.DisabledHeavy {
			if callee.IsStage {
				wantDisabled = g.r.Bool()
			} else {
				wantDisabled = g.r.Intn(10) != 0
			}
		}
		if wantDisabled {
			var bools, flags []src
			for _, s := range srcs {
				if s.T.K == "bool" && len(s.E.Path) == 0 && !s.Nullable {
					bools = append(bools, s)
					if s.E.Src != "self" {
						flags = append(flags, s)
					}
				}
			}
			if g.o.DisabledHeavy && len(flags) > 0 && g.r.Intn(4) != 0 {
				bools = flags // a stage output: only known at run time
			}
			if len(bools) > 0 {
				c.Disabled = hx.Pick(g.r, bools).E
				g.Stats["disabled_call"]++
			}
		}
		g.noTaint, g.nonEmpty = false, false
		p.Calls = append(p.Calls, c)
		if c.Mapped != "" || callee.HasMap {
			me.HasMap = true
		}
		if c.Mapped == "map" || callee.HasKeyedMap {
			me.HasKeyedMap = true
		}
		if callee.ConstOuts {
			me.ConstOuts = true // conservatively: it may return the callee's constant
		}
		if c.Mapped != "" && callee.HasMap {
			g.Stats["nested_map_call"]++
		}
		// the call's outputs become sources
		anyTaint := c.Mapped != ""
		for _, o := range callee.Outs {
			if callee.TaintedOuts[o.Name] {
				anyTaint = true
			}
		}
		noSplit := false // maps over outputs of run-time-disabled calls: repaired (corpus/regress/map_over_output_of_runtime_disabled_*)
		// which inputs of this pipeline does the call depend on
		callParams := map[string]bool{}
		bindParams := map[string]map[string]bool{}
		for _, b := range c.Binds {
			bp := expParams(b.E, srcs)
			bindParams[b.Param] = bp
			for k := range bp {
				callParams[k] = true
			}
		}
		for k := range expParams(c.Disabled, srcs) {
			callParams[k] = true
		}
		// does every stage inside this call depend on input f of the pipeline
		for _, f := range p.Ins {
			dep := false
			if callee.IsStage {
				dep = callParams[f.Name]
			} else {
				for q, all := range callee.AllDep {
					if all && bindParams[q][f.Name] {
						dep = true
					}
				}
			}
			if !dep {
				allDepBroken[f.Name] = true
			}
		}
		anyNullable := c.Disabled != nil
		for _, o := range callee.Outs {
			if callee.NullableOuts[o.Name] {
				anyNullable = true
			}
		}
		whole := src{E: &Exp{K: "ref", Src: c.ID}, T: wrapTy(TStruct(callee.Name), c.Mapped), Tainted: anyTaint, NoSplit: noSplit,
			Nullable: anyNullable, Params: callParams}
		srcs = append(srcs, whole)
		for _, o := range callee.Outs {
			srcs = append(srcs, g.withProjections(
				src{E: &Exp{K: "ref", Src: c.ID, Out: o.Name}, T: wrapTy(o.T, c.Mapped),
					Tainted: c.Mapped != "" || callee.TaintedOuts[o.Name], NoSplit: noSplit,
					Nullable: c.Disabled != nil || callee.NullableOuts[o.Name], Params: callParams}, 1)...)
		}
	}
	// outputs: bound to available sources, or literals
	for i, n := 0, 1+g.r.Intn(3); i < n; i++ {
		var t *Ty
		var e *Exp
		tainted := false
		if g.r.Intn(6) != 0 {
			s := hx.Pick(g.r, srcs)
			t, e, tainted = s.T, s.E, s.Tainted
		} else {
			t = g.randType()
			e = g.expFor(t, srcs, 0)
			tainted = expTainted(e, srcs)
		}
		name := fmt.Sprintf("r%d", i)
		me.TaintedOuts[name] = tainted
		me.NullableOuts[name] = expNullable(e, srcs)
		if !hasAnyRef(e) {
			me.ConstOuts = true
		}
		p.Outs = append(p.Outs, Field{name, t})
		p.Ret = append(p.Ret, Bind{Param: name, E: e})
	}
	used := map[string]bool{}
	for _, c := range p.Calls {
		for _, b := range c.Binds {
			usedSelf(b.E, used)
		}
		usedSelf(c.Disabled, used)
	}
	for _, r := range p.Ret {
		usedSelf(r.E, used)
	}
	var ins []Field
	for _, f := range p.Ins {
		if used[f.Name] {
			ins = append(ins, f)
		}
	}
	p.Ins = ins
	g.structs[name] = p.Outs
	me.Ins, me.Outs = p.Ins, p.Outs
	me.AllDep = map[string]bool{}
	for _, f := range p.Ins {
		ok := !allDepBroken[f.Name]
		if hasPf && !(pfUses != nil && pfUses.K == "ref" && pfUses.Out == f.Name) {
			ok = false // the preflight stage does not depend on it
		}
		me.AllDep[f.Name] = ok
	}
	return p, me
}

func hasAnyRef(e *Exp) bool {
	if e == nil {
		return false
	}
	if e.K == "ref" {
		return true
	}
	for _, x := range e.Items {
		if hasAnyRef(x) {
			return true
		}
	}
	return false
}

// expParams: the pipeline inputs an expression depends on (through the
// sources it references).
func expParams(e *Exp, srcs []src) map[string]bool {
	out := map[string]bool{}
	var walk func(e *Exp)
	walk = func(e *Exp) {
		if e == nil {
			return
		}
		if e.K == "ref" {
			if e.Src == "self" {
				out[e.Out] = true
				return
			}
			for _, s := range srcs {
				if s.E.Src == e.Src && (s.E.Out == e.Out || s.E.Out == "") {
					for k := range s.Params {
						out[k] = true
					}
				}
			}
			return
		}
		for _, x := range e.Items {
			walk(x)
		}
	}
	walk(e)
	return out
}

// baseBool: bool, or a collection of bools.
func baseBool(t *Ty) bool {
	for t != nil && (t.K == "arr" || t.K == "tmap") {
		t = t.Elem
	}
	return t != nil && t.K == "bool"
}

// expNullable: does the expression mention a nullable source?
func expNullable(e *Exp, srcs []src) bool {
	if e == nil {
		return false
	}
	if e.K == "ref" {
		for _, s := range srcs {
			if s.Nullable && s.E.Src == e.Src && (s.E.Out == e.Out || s.E.Out == "") {
				return true
			}
		}
		return false
	}
	for _, x := range e.Items {
		if expNullable(x, srcs) {
			return true
		}
	}
	return false
}

// expTainted: does the expression mention a tainted source?
func expTainted(e *Exp, srcs []src) bool {
	if e == nil {
		return false
	}
	if e.K == "ref" {
		for _, s := range srcs {
			if s.Tainted && s.E.Src == e.Src && s.E.Out == e.Out {
				return true
			}
		}
		return false
	}
	for _, x := range e.Items {
		if expTainted(x, srcs) {
			return true
		}
	}
	return false
}

// Gen builds one random program.
func (g *G) Gen(stageCmd string) *Program {
	p := &Program{StageCmd: stageCmd, Structs: baseStructs}
	for _, s := range baseStructs {
		g.structs[s.Name] = s.Fields
	}
	var callables []sig
	nst := 2 + g.r.Intn(4)
	for i := 0; i < nst; i++ {
		s := g.genStage(fmt.Sprintf("ST%d", i))
		p.Stages = append(p.Stages, s)
		nullable := map[string]bool{}
		for _, o := range s.Outs {
			// only the flag output is a literal bool whatever the arguments
			nullable[o.Name] = o.Name != "flag"
		}
		callables = append(callables, sig{Name: s.Name, Ins: s.Ins, Outs: s.Outs, IsStage: true, NullableOuts: nullable})
	}
	if g.o.Preflight && g.r.Bool() {
		pf := &Stage{Name: "PFCHECK", Ins: []Field{{"x", TInt}}, MainOuts: map[string]*SExp{}, ChunkOutsB: map[string]*SExp{}}
		p.Stages = append(p.Stages, pf)
		g.structs[pf.Name] = nil
		g.pfStage = pf.Name
	}
	depth := 1 + g.r.Intn(g.o.MaxDepth)
	var last *Pipeline
	n := 0
	for lvl := 0; lvl < depth; lvl++ {
		var made []sig
		for i, k := 0, 1+g.r.Intn(2); i < k; i++ {
			pl, sg := g.genPipeline(fmt.Sprintf("PL%d", n), callables)
			n++
			p.Pipelines = append(p.Pipelines, pl)
			made = append(made, sg)
			last = pl
		}
		callables = append(callables, made...)
	}
	g.Stats[fmt.Sprintf("depth_%d", depth)]++
	if g.r.Intn(3) == 0 {
		g.addNarrowingPair(p, last)
	}
	top := &Call{ID: last.Name, Callee: last.Name}
	for _, in := range last.Ins {
		top.Binds = append(top.Binds, Bind{Param: in.Name, E: g.litExp(in.T, g.randValue(in.T, 0))})
	}
	p.Top = top
	return p
}

// addNarrowingPair adds a producer of wide structs inside collections (with
// null elements in every position, the first included) and a consumer that
// declares the narrower struct, to the top pipeline: the consumer must receive
// the values with the undeclared fields dropped, nulls kept.
func (g *G) addNarrowingPair(p *Program, top *Pipeline) {
	s1, s2 := TStruct("S1"), TStruct("S2")
	wide := func() hx.JV {
		return hx.JObj([]hx.JKV{{Key: "a", Val: hx.JInt(g.uniq())}, {Key: "b", Val: hx.JStr(fmt.Sprintf("s%d", g.uniq()))},
			{Key: "c", Val: hx.JNum(bigInt(g.uniq()*10+5), -1)}, {Key: "xs", Val: hx.JArr([]hx.JV{hx.JInt(g.uniq())})}})
	}
	elems := func() []hx.JV {
		n := 2 + g.r.Intn(3)
		out := make([]hx.JV, n)
		nullAt := g.r.Intn(n + 1) // n = no null
		for i := range out {
			if i == nullAt {
				out[i] = hx.JNull()
			} else {
				out[i] = wide()
			}
		}
		return out
	}
	arr := hx.JArr(elems())
	var kvs []hx.JKV
	for i, v := range elems() {
		kvs = append(kvs, hx.JKV{Key: fmt.Sprintf("k%d", i), Val: v})
	}
	nested := hx.JArr([]hx.JV{hx.JArr(elems()), hx.JNull(), hx.JArr(elems())})
	src := &Stage{Name: "NARROW_SRC",
		Outs:       []Field{{"o", TArr(s2)}, {"m", TMap(s2)}, {"oo", TArr(TArr(s2))}},
		MainOuts:   map[string]*SExp{"o": {K: "lit", Lit: arr}, "m": {K: "lit", Lit: hx.JObj(kvs)}, "oo": {K: "lit", Lit: nested}},
		ChunkOutsB: map[string]*SExp{}}
	dst := &Stage{Name: "NARROW_DST",
		Ins:      []Field{{"v", TArr(s1)}, {"m", TMap(s1)}, {"vv", TArr(TArr(s1))}},
		Outs:     []Field{{"n", TInt}},
		MainOuts: map[string]*SExp{"n": {K: "lit", Lit: hx.JInt(g.uniq())}}, ChunkOutsB: map[string]*SExp{}}
	p.Stages = append(p.Stages, src, dst)
	g.structs[src.Name], g.structs[dst.Name] = src.Outs, dst.Outs
	ref := func(out string) *Exp { return &Exp{K: "ref", Src: "NARROW_SRC", Out: out} }
	top.Calls = append(top.Calls,
		&Call{ID: "NARROW_SRC", Callee: "NARROW_SRC"},
		&Call{ID: "NARROW_DST", Callee: "NARROW_DST", Binds: []Bind{{Param: "v", E: ref("o")}, {Param: "m", E: ref("m")}, {Param: "vv", E: ref("oo")}}})
	g.Stats["narrowing_pair"]++
}
