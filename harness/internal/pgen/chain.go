package pgen

import (
	"fmt"

	"verifharness/internal/hx"
)

// GenDisableChain builds a program of the family "nested run-time
// disabling": a chain of D sub-pipelines, each called by the previous one
// with a disabled modifier bound to its own flag, all flags being outputs of
// one stage (so every level adds a distinct run-time condition to what the
// calls inside inherit); the innermost pipeline has S sibling stage calls,
// some with their own run-time disabled flag, some without, and every level
// returns the siblings' outputs.  The random generator reaches depth 4 with
// distinct flags at every level only rarely; this family covers depths 1..5
// and 2..4 siblings systematically (which condition list a call ends up
// with depends on the nesting depth).
func GenDisableChain(r *hx.Rng, stageCmd string) (*Program, map[string]int) {
	stats := map[string]int{}
	depth := 1 + r.Intn(5)
	nsib := 2 + r.Intn(3)
	stats[fmt.Sprintf("chain_depth_%d", depth)]++
	stats[fmt.Sprintf("chain_siblings_%d", nsib)]++
	p := &Program{StageCmd: stageCmd}
	// FLAGS: one bool output per level and per sibling
	fl := &Stage{Name: "FLAGS", MainOuts: map[string]*SExp{}, ChunkOutsB: map[string]*SExp{}}
	fl.Ins = []Field{{"i0", TInt}}
	var offs, skips []string
	// in a third of the programs exactly one level is switched off at run
	// time: nothing inside it may run
	offLevel := -1
	if r.Intn(3) == 0 {
		offLevel = r.Intn(depth)
		stats["chain_one_level_disabled"]++
	}
	for k := 0; k < depth; k++ {
		n := fmt.Sprintf("off%d", k)
		offs = append(offs, n)
		fl.Outs = append(fl.Outs, Field{n, TBool})
		fl.MainOuts[n] = &SExp{K: "lit", Lit: hx.JBool(k == offLevel)}
	}
	ownFlag := make([]bool, nsib)
	for j := 0; j < nsib; j++ {
		ownFlag[j] = j < 2 || r.Bool() // at least two siblings with their own condition
		if !ownFlag[j] {
			continue
		}
		n := fmt.Sprintf("skip%d", j)
		skips = append(skips, n)
		fl.Outs = append(fl.Outs, Field{n, TBool})
		v := r.Bool()
		if j == 1 {
			// the first two differ
			v = !boolOf(fl.MainOuts["skip0"])
		}
		fl.MainOuts[n] = &SExp{K: "lit", Lit: hx.JBool(v)}
	}
	em := &Stage{Name: "EMIT", MainOuts: map[string]*SExp{}, ChunkOutsB: map[string]*SExp{}}
	em.Ins = []Field{{"i0", TInt}}
	em.Outs = []Field{{"o0", TInt}}
	em.MainOuts["o0"] = &SExp{K: "arg", Name: "i0"}
	p.Stages = []*Stage{fl, em}
	// innermost pipeline
	var outs []Field
	inner := &Pipeline{Name: fmt.Sprintf("L%d", depth)}
	for _, s := range skips {
		inner.Ins = append(inner.Ins, Field{s, TBool})
	}
	for j := 0; j < nsib; j++ {
		id := fmt.Sprintf("S%d", j)
		c := &Call{ID: id, Callee: "EMIT", Binds: []Bind{{Param: "i0", E: Lit(hx.JInt(int64(100 + j)))}}}
		if ownFlag[j] {
			c.Disabled = &Exp{K: "ref", Src: "self", Out: fmt.Sprintf("skip%d", j)}
			stats["chain_sibling_with_flag"]++
		}
		inner.Calls = append(inner.Calls, c)
		on := fmt.Sprintf("r%d", j)
		outs = append(outs, Field{on, TInt})
		inner.Ret = append(inner.Ret, Bind{Param: on, E: &Exp{K: "ref", Src: id, Out: "o0"}})
	}
	inner.Outs = outs
	p.Pipelines = append(p.Pipelines, inner)
	// the chain, from the inside out: L(k) calls L(k+1) disabled by off(k)
	prev := inner
	for k := depth - 1; k >= 1; k-- {
		pl := &Pipeline{Name: fmt.Sprintf("L%d", k), Outs: outs}
		for q := k; q < depth; q++ {
			pl.Ins = append(pl.Ins, Field{offs[q], TBool})
		}
		for _, s := range skips {
			pl.Ins = append(pl.Ins, Field{s, TBool})
		}
		c := &Call{ID: prev.Name, Callee: prev.Name, Disabled: &Exp{K: "ref", Src: "self", Out: offs[k]}}
		for _, in := range prev.Ins {
			c.Binds = append(c.Binds, Bind{Param: in.Name, E: &Exp{K: "ref", Src: "self", Out: in.Name}})
		}
		pl.Calls = []*Call{c}
		for _, o := range outs {
			pl.Ret = append(pl.Ret, Bind{Param: o.Name, E: &Exp{K: "ref", Src: prev.Name, Out: o.Name}})
		}
		p.Pipelines = append(p.Pipelines, pl)
		prev = pl
	}
	// top: FLAGS, then the outermost level disabled by off0
	top := &Pipeline{Name: "TOPL", Ins: []Field{{"seed", TInt}}, Outs: outs}
	top.Calls = append(top.Calls, &Call{ID: "FLAGS", Callee: "FLAGS",
		Binds: []Bind{{Param: "i0", E: &Exp{K: "ref", Src: "self", Out: "seed"}}}})
	c := &Call{ID: prev.Name, Callee: prev.Name, Disabled: &Exp{K: "ref", Src: "FLAGS", Out: offs[0]}}
	for _, in := range prev.Ins {
		c.Binds = append(c.Binds, Bind{Param: in.Name, E: &Exp{K: "ref", Src: "FLAGS", Out: in.Name}})
	}
	top.Calls = append(top.Calls, c)
	for _, o := range outs {
		top.Ret = append(top.Ret, Bind{Param: o.Name, E: &Exp{K: "ref", Src: prev.Name, Out: o.Name}})
	}
	p.Pipelines = append(p.Pipelines, top)
	p.Top = &Call{ID: "TOPL", Callee: "TOPL", Binds: []Bind{{Param: "seed", E: Lit(hx.JInt(int64(r.Intn(1000))))}}}
	return p, stats
}

func boolOf(e *SExp) bool {
	return e != nil && e.Lit.JSON() == "true"
}

// GenTwinBranches builds a program of the family "one pipeline, several
// instances": a sub-pipeline (optionally wrapped in a second level) is called
// N times under different aliases, so that the stages inside the instances
// have the same call id and differ only in their fully qualified names, and
// consumers bind the results of several instances at once.  Whatever
// identifies a producer by less than its full path confuses the instances.
func GenTwinBranches(r *hx.Rng, stageCmd string) (*Program, map[string]int) {
	stats := map[string]int{}
	n := 2 + r.Intn(3)
	wrap := r.Intn(3) == 0
	stats[fmt.Sprintf("twins_instances_%d", n)]++
	p := &Program{StageCmd: stageCmd}
	work := &Stage{Name: "WORK", MainOuts: map[string]*SExp{}, ChunkOutsB: map[string]*SExp{}}
	work.Ins = []Field{{"i0", TInt}}
	work.Outs = []Field{{"o0", TInt}}
	work.MainOuts["o0"] = &SExp{K: "arg", Name: "i0"}
	sum := &Stage{Name: "SUM", MainOuts: map[string]*SExp{}, ChunkOutsB: map[string]*SExp{}}
	sum.Ins = []Field{{"xs", TArr(TInt)}}
	sum.Outs = []Field{{"o0", TArr(TInt)}}
	sum.MainOuts["o0"] = &SExp{K: "arg", Name: "xs"}
	p.Stages = []*Stage{work, sum}
	br := &Pipeline{Name: "BRANCH", Ins: []Field{{"p0", TInt}}, Outs: []Field{{"r0", TInt}}}
	br.Calls = []*Call{{ID: "STEP", Callee: "WORK", Binds: []Bind{{Param: "p0", E: nil}}}}
	br.Calls[0].Binds = []Bind{{Param: "i0", E: &Exp{K: "ref", Src: "self", Out: "p0"}}}
	br.Ret = []Bind{{Param: "r0", E: &Exp{K: "ref", Src: "STEP", Out: "o0"}}}
	p.Pipelines = append(p.Pipelines, br)
	inst := "BRANCH"
	if wrap {
		stats["twins_wrapped"]++
		w := &Pipeline{Name: "WRAP", Ins: []Field{{"p0", TInt}}, Outs: []Field{{"r0", TInt}}}
		w.Calls = []*Call{{ID: "INNER", Callee: "BRANCH", Binds: []Bind{{Param: "p0", E: &Exp{K: "ref", Src: "self", Out: "p0"}}}}}
		w.Ret = []Bind{{Param: "r0", E: &Exp{K: "ref", Src: "INNER", Out: "r0"}}}
		p.Pipelines = append(p.Pipelines, w)
		inst = "WRAP"
	}
	top := &Pipeline{Name: "TOPT", Ins: []Field{{"seed", TInt}}}
	var ids []string
	for k := 0; k < n; k++ {
		id := fmt.Sprintf("B%d", k)
		ids = append(ids, id)
		var e *Exp = Lit(hx.JInt(int64(10 * (k + 1))))
		if k == 0 {
			e = &Exp{K: "ref", Src: "self", Out: "seed"}
		}
		top.Calls = append(top.Calls, &Call{ID: id, Callee: inst, Binds: []Bind{{Param: "p0", E: e}}})
	}
	ncons := 2 + r.Intn(5)
	for j := 0; j < ncons; j++ {
		id := fmt.Sprintf("J%d", j)
		e := &Exp{K: "arr"}
		// every consumer binds at least two different instances
		a := r.Intn(n)
		b := (a + 1 + r.Intn(n-1)) % n
		picks := []int{a, b}
		for k := 0; k < n; k++ {
			if k != a && k != b && r.Intn(3) == 0 {
				picks = append(picks, k)
			}
		}
		for _, k := range picks {
			e.Items = append(e.Items, &Exp{K: "ref", Src: ids[k], Out: "r0"})
		}
		top.Calls = append(top.Calls, &Call{ID: id, Callee: "SUM", Binds: []Bind{{Param: "xs", E: e}}})
		on := fmt.Sprintf("r%d", j)
		top.Outs = append(top.Outs, Field{on, TArr(TInt)})
		top.Ret = append(top.Ret, Bind{Param: on, E: &Exp{K: "ref", Src: id, Out: "o0"}})
		stats["twins_consumer"]++
	}
	p.Pipelines = append(p.Pipelines, top)
	p.Top = &Call{ID: "TOPT", Callee: "TOPT", Binds: []Bind{{Param: "seed", E: Lit(hx.JInt(int64(r.Intn(1000))))}}}
	return p, stats
}

// GenPreflightNested builds a program of the family "preflight gates
// everything": the top pipeline has a preflight call, a plain stage call and
// a call of a sub-pipeline nested 1..3 levels deep whose innermost stages are
// bound only to pipeline inputs and literals (so nothing but the preflight
// stage holds them back), each feeding a second stage.  Every call of the
// program, at any depth, depends on the preflight call.
func GenPreflightNested(r *hx.Rng, stageCmd string) (*Program, map[string]int) {
	stats := map[string]int{}
	depth := 1 + r.Intn(3)
	stats[fmt.Sprintf("preflight_nested_depth_%d", depth)]++
	p := &Program{StageCmd: stageCmd}
	pf := &Stage{Name: "PFCHECK", Ins: []Field{{"x", TInt}}, MainOuts: map[string]*SExp{}, ChunkOutsB: map[string]*SExp{}}
	work := &Stage{Name: "WORK", MainOuts: map[string]*SExp{}, ChunkOutsB: map[string]*SExp{}}
	work.Ins = []Field{{"i0", TInt}}
	work.Outs = []Field{{"o0", TInt}}
	work.MainOuts["o0"] = &SExp{K: "arg", Name: "i0"}
	p.Stages = []*Stage{pf, work}
	var prev *Pipeline
	for k := depth; k >= 1; k-- {
		pl := &Pipeline{Name: fmt.Sprintf("N%d", k), Ins: []Field{{"p0", TInt}}, Outs: []Field{{"r0", TInt}}}
		var first *Exp = &Exp{K: "ref", Src: "self", Out: "p0"}
		if r.Bool() {
			first = Lit(hx.JInt(int64(50 + k)))
		}
		pl.Calls = append(pl.Calls, &Call{ID: "FIRST", Callee: "WORK", Binds: []Bind{{Param: "i0", E: first}}})
		pl.Calls = append(pl.Calls, &Call{ID: "SECOND", Callee: "WORK",
			Binds: []Bind{{Param: "i0", E: &Exp{K: "ref", Src: "FIRST", Out: "o0"}}}})
		ret := "SECOND"
		if prev != nil {
			pl.Calls = append(pl.Calls, &Call{ID: prev.Name, Callee: prev.Name,
				Binds: []Bind{{Param: "p0", E: &Exp{K: "ref", Src: "self", Out: "p0"}}}})
			if r.Bool() {
				ret = prev.Name
			}
		}
		out := "o0"
		if ret != "SECOND" {
			out = "r0"
		}
		pl.Ret = []Bind{{Param: "r0", E: &Exp{K: "ref", Src: ret, Out: out}}}
		p.Pipelines = append(p.Pipelines, pl)
		prev = pl
	}
	top := &Pipeline{Name: "TOPP", Ins: []Field{{"seed", TInt}}, Outs: []Field{{"r0", TInt}, {"r1", TInt}}}
	top.Calls = append(top.Calls, &Call{ID: "PFCHECK", Callee: "PFCHECK", Preflight: true,
		Binds: []Bind{{Param: "x", E: &Exp{K: "ref", Src: "self", Out: "seed"}}}})
	top.Calls = append(top.Calls, &Call{ID: "TOPWORK", Callee: "WORK",
		Binds: []Bind{{Param: "i0", E: &Exp{K: "ref", Src: "self", Out: "seed"}}}})
	top.Calls = append(top.Calls, &Call{ID: prev.Name, Callee: prev.Name,
		Binds: []Bind{{Param: "p0", E: Lit(hx.JInt(int64(r.Intn(100))))}}})
	top.Ret = []Bind{{Param: "r0", E: &Exp{K: "ref", Src: "TOPWORK", Out: "o0"}},
		{Param: "r1", E: &Exp{K: "ref", Src: prev.Name, Out: "r0"}}}
	p.Pipelines = append(p.Pipelines, top)
	p.Top = &Call{ID: "TOPP", Callee: "TOPP", Binds: []Bind{{Param: "seed", E: Lit(hx.JInt(int64(r.Intn(1000))))}}}
	return p, stats
}

// GenPerForkFlags builds a program of the family "a run-time condition per
// fork": a pipeline is mapped over arrays (or typed maps) of flags and
// values; inside it a sibling stage passes the fork's flag on, and a second
// stage (and a mapped third one) is disabled by that output.  The condition
// is a plain reference, yet it differs from fork to fork of the enclosing
// map call: whatever is remembered per call instead of per fork is wrong for
// all forks but one.  Two instances with complementary flags, one uniform.
func GenPerForkFlags(r *hx.Rng, stageCmd string) (*Program, map[string]int) {
	stats := map[string]int{}
	n := 2 + r.Intn(3)
	overMap := r.Intn(3) == 0
	stats[fmt.Sprintf("per_fork_flags_%d", n)]++
	p := &Program{StageCmd: stageCmd}
	fl := &Stage{Name: "FLAG", MainOuts: map[string]*SExp{}, ChunkOutsB: map[string]*SExp{}}
	fl.Ins = []Field{{"b", TBool}}
	fl.Outs = []Field{{"flag", TBool}}
	fl.MainOuts["flag"] = &SExp{K: "arg", Name: "b"}
	ec := &Stage{Name: "ECHO", MainOuts: map[string]*SExp{}, ChunkOutsB: map[string]*SExp{}}
	ec.Ins = []Field{{"i0", TInt}}
	ec.Outs = []Field{{"o0", TInt}}
	ec.MainOuts["o0"] = &SExp{K: "arg", Name: "i0"}
	p.Stages = []*Stage{fl, ec}
	inner := &Pipeline{Name: "INNER", Ins: []Field{{"b", TBool}, {"x", TInt}}, Outs: []Field{{"y", TInt}, {"z", TInt}}}
	inner.Calls = []*Call{
		{ID: "FLAG", Callee: "FLAG", Binds: []Bind{{Param: "b", E: &Exp{K: "ref", Src: "self", Out: "b"}}}},
		{ID: "ECHO", Callee: "ECHO", Binds: []Bind{{Param: "i0", E: &Exp{K: "ref", Src: "self", Out: "x"}}},
			Disabled: &Exp{K: "ref", Src: "FLAG", Out: "flag"}},
		{ID: "PLAIN", Callee: "ECHO", Binds: []Bind{{Param: "i0", E: &Exp{K: "ref", Src: "self", Out: "x"}}}},
	}
	inner.Ret = []Bind{{Param: "y", E: &Exp{K: "ref", Src: "ECHO", Out: "o0"}}, {Param: "z", E: &Exp{K: "ref", Src: "PLAIN", Out: "o0"}}}
	p.Pipelines = append(p.Pipelines, inner)
	mk := func(flags []bool) (*Exp, *Exp) {
		fe, xe := &Exp{K: "arr"}, &Exp{K: "arr"}
		if overMap {
			fe.K, xe.K = "obj", "obj"
		}
		for i, f := range flags {
			if overMap {
				k := fmt.Sprintf("k%d", i)
				fe.Keys = append(fe.Keys, k)
				xe.Keys = append(xe.Keys, k)
			}
			fe.Items = append(fe.Items, Lit(hx.JBool(f)))
			xe.Items = append(xe.Items, Lit(hx.JInt(int64(10*(i+1)))))
		}
		return fe, xe
	}
	first := make([]bool, n)
	for i := range first {
		first[i] = i%2 == 1 // off, on, off, ...
	}
	if r.Bool() {
		for i := range first {
			first[i] = r.Bool()
		}
		first[0], first[n-1] = false, true
	}
	second := make([]bool, n)
	for i := range second {
		second[i] = !first[i]
	}
	uniform := make([]bool, n)
	for i := range uniform {
		uniform[i] = first[0]
	}
	mode, tArr := "arr", TArr(TInt)
	if overMap {
		mode, tArr = "map", TMap(TInt)
		stats["per_fork_flags_over_map"]++
	}
	top := &Pipeline{Name: "TOPF"}
	for k, flags := range [][]bool{first, second, uniform} {
		id := []string{"OFF_ON", "ON_OFF", "SAME"}[k]
		fe, xe := mk(flags)
		top.Calls = append(top.Calls, &Call{ID: id, Callee: "INNER", Mapped: mode,
			Binds: []Bind{{Param: "b", E: fe, Split: true}, {Param: "x", E: xe, Split: true}}})
		for _, o := range []string{"y", "z"} {
			on := fmt.Sprintf("%s_%s", o, id)
			top.Outs = append(top.Outs, Field{on, tArr})
			top.Ret = append(top.Ret, Bind{Param: on, E: &Exp{K: "ref", Src: id, Out: o}})
		}
	}
	p.Pipelines = append(p.Pipelines, top)
	p.Top = &Call{ID: "TOPF", Callee: "TOPF"}
	return p, stats
}

// GenNestedDynamicMerge builds a program of the family "merged output of a
// map call nested in a map call, both sized at run time": OUTER is mapped
// over the output of a fast stage, INNER inside it over the output of a slow
// one, and what INNER returns comes from a stage that depends on neither.
// The consumer of the merged grid has nothing to wait for but the two sizes:
// it must still not start before the slow producer has finished.
func GenNestedDynamicMerge(r *hx.Rng, stageCmd string) (*Program, map[string]int) {
	stats := map[string]int{}
	p := &Program{StageCmd: stageCmd, Delays: map[string]int{}}
	arr := func(n int) hx.JV {
		var xs []hx.JV
		for i := 0; i < n; i++ {
			xs = append(xs, hx.JInt(int64(i+1)))
		}
		return hx.JArr(xs)
	}
	mkSrc := func(name string, n int) *Stage {
		st := &Stage{Name: name, MainOuts: map[string]*SExp{}, ChunkOutsB: map[string]*SExp{}}
		st.Ins = []Field{{"i0", TInt}}
		st.Outs = []Field{{"vals", TArr(TInt)}}
		st.MainOuts["vals"] = &SExp{K: "lit", Lit: arr(n)}
		return st
	}
	no, ni := 1+r.Intn(3), 1+r.Intn(3)
	stats[fmt.Sprintf("nested_dynamic_merge_%dx%d", no, ni)]++
	fast, slow := mkSrc("PFAST", no), mkSrc("QSLOW", ni)
	slowOuter := r.Intn(3) == 0
	if slowOuter {
		// the other way round: the outer size arrives last
		p.Delays["PFAST"] = 900 + r.Intn(600)
		stats["nested_dynamic_merge_slow_outer"]++
	} else {
		p.Delays["QSLOW"] = 900 + r.Intn(600)
	}
	nouse := &Stage{Name: "NOUSE", MainOuts: map[string]*SExp{}, ChunkOutsB: map[string]*SExp{}}
	nouse.Ins = []Field{{"i0", TInt}}
	nouse.Outs = []Field{{"o0", TInt}}
	nouse.MainOuts["o0"] = &SExp{K: "arg", Name: "i0"}
	sink := &Stage{Name: "SINK", MainOuts: map[string]*SExp{}, ChunkOutsB: map[string]*SExp{}}
	sink.Ins = []Field{{"grid", TArr(TArr(TInt))}}
	sink.Outs = []Field{{"o0", TArr(TArr(TInt))}}
	sink.MainOuts["o0"] = &SExp{K: "arg", Name: "grid"}
	p.Stages = []*Stage{fast, slow, nouse, sink}
	inner := &Pipeline{Name: "INNERM", Ins: []Field{{"x", TInt}}, Outs: []Field{{"n", TInt}}}
	inner.Calls = []*Call{{ID: "NOUSE", Callee: "NOUSE", Binds: []Bind{{Param: "i0", E: Lit(hx.JInt(int64(1 + r.Intn(9))))}}}}
	if r.Bool() {
		// ... or does use the element
		inner.Calls[0].Binds[0].E = &Exp{K: "ref", Src: "self", Out: "x"}
		stats["nested_dynamic_merge_uses_element"]++
	}
	// (a pipeline input has to be used by some call)
	inner.Calls = append(inner.Calls, &Call{ID: "USEX", Callee: "NOUSE", Binds: []Bind{{Param: "i0", E: &Exp{K: "ref", Src: "self", Out: "x"}}}})
	inner.Ret = []Bind{{Param: "n", E: &Exp{K: "ref", Src: "NOUSE", Out: "o0"}}}
	outer := &Pipeline{Name: "OUTERM", Ins: []Field{{"y", TInt}, {"qs", TArr(TInt)}}, Outs: []Field{{"b", TArr(TInt)}}}
	outer.Calls = []*Call{{ID: "INNERM", Callee: "INNERM", Mapped: "arr",
		Binds: []Bind{{Param: "x", E: &Exp{K: "ref", Src: "self", Out: "qs"}, Split: true}}}}
	outer.Calls = append(outer.Calls, &Call{ID: "USEY", Callee: "NOUSE", Binds: []Bind{{Param: "i0", E: &Exp{K: "ref", Src: "self", Out: "y"}}}})
	outer.Ret = []Bind{{Param: "b", E: &Exp{K: "ref", Src: "INNERM", Out: "n"}}}
	top := &Pipeline{Name: "TOPM", Ins: []Field{{"seed", TInt}}, Outs: []Field{{"grid", TArr(TArr(TInt))}}}
	top.Calls = []*Call{
		{ID: "PFAST", Callee: "PFAST", Binds: []Bind{{Param: "i0", E: &Exp{K: "ref", Src: "self", Out: "seed"}}}},
		{ID: "QSLOW", Callee: "QSLOW", Binds: []Bind{{Param: "i0", E: &Exp{K: "ref", Src: "self", Out: "seed"}}}},
		{ID: "OUTERM", Callee: "OUTERM", Mapped: "arr", Binds: []Bind{
			{Param: "y", E: &Exp{K: "ref", Src: "PFAST", Out: "vals"}, Split: true},
			{Param: "qs", E: &Exp{K: "ref", Src: "QSLOW", Out: "vals"}}}},
		{ID: "SINK", Callee: "SINK", Binds: []Bind{{Param: "grid", E: &Exp{K: "ref", Src: "OUTERM", Out: "b"}}}},
	}
	top.Ret = []Bind{{Param: "grid", E: &Exp{K: "ref", Src: "SINK", Out: "o0"}}}
	p.Pipelines = []*Pipeline{inner, outer, top}
	p.Top = &Call{ID: "TOPM", Callee: "TOPM", Binds: []Bind{{Param: "seed", E: Lit(hx.JInt(int64(r.Intn(1000))))}}}
	return p, stats
}
