package pgen

import (
	"fmt"

	"verifharness/internal/hx"
)

// GenDisableChain builds a program of the family "nested run-time
// disabling": a chain of D sub-pipelines, each called by the previous one
// with a disabled modifier bound to its own flag, all flags being outputs of
// one stage (so every level adds a distinct run-time condition to what the
// calls inside inherit); the innermost pipeline has S sibling stage calls,
// some with their own run-time disabled flag, some without, and every level
// returns the siblings' outputs.  The random generator reaches depth 4 with
// distinct flags at every level only rarely; this family covers depths 1..5
// and 2..4 siblings systematically (which condition list a call ends up
// with depends on the nesting depth).
func GenDisableChain(r *hx.Rng, stageCmd string) (*Program, map[string]int) {
	stats := map[string]int{}
	depth := 1 + r.Intn(5)
	nsib := 2 + r.Intn(3)
	stats[fmt.Sprintf("chain_depth_%d", depth)]++
	stats[fmt.Sprintf("chain_siblings_%d", nsib)]++
	p := &Program{StageCmd: stageCmd}
	// FLAGS: one bool output per level and per sibling
	fl := &Stage{Name: "FLAGS", MainOuts: map[string]*SExp{}, ChunkOutsB: map[string]*SExp{}}
	fl.Ins = []Field{{"i0", TInt}}
	var offs, skips []string
	anyOff := false
	for k := 0; k < depth; k++ {
		n := fmt.Sprintf("off%d", k)
		offs = append(offs, n)
		fl.Outs = append(fl.Outs, Field{n, TBool})
		v := r.Intn(6) == 0 && !anyOff // mostly enabled
		anyOff = anyOff || v
		fl.MainOuts[n] = &SExp{K: "lit", Lit: hx.JBool(v)}
	}
	ownFlag := make([]bool, nsib)
	for j := 0; j < nsib; j++ {
		ownFlag[j] = j < 2 || r.Bool() // at least two siblings with their own condition
		if !ownFlag[j] {
			continue
		}
		n := fmt.Sprintf("skip%d", j)
		skips = append(skips, n)
		fl.Outs = append(fl.Outs, Field{n, TBool})
		v := r.Bool()
		if j == 1 {
			// the first two differ
			v = !boolOf(fl.MainOuts["skip0"])
		}
		fl.MainOuts[n] = &SExp{K: "lit", Lit: hx.JBool(v)}
	}
	em := &Stage{Name: "EMIT", MainOuts: map[string]*SExp{}, ChunkOutsB: map[string]*SExp{}}
	em.Ins = []Field{{"i0", TInt}}
	em.Outs = []Field{{"o0", TInt}}
	em.MainOuts["o0"] = &SExp{K: "arg", Name: "i0"}
	p.Stages = []*Stage{fl, em}
	// innermost pipeline
	var outs []Field
	inner := &Pipeline{Name: fmt.Sprintf("L%d", depth)}
	for _, s := range skips {
		inner.Ins = append(inner.Ins, Field{s, TBool})
	}
	for j := 0; j < nsib; j++ {
		id := fmt.Sprintf("S%d", j)
		c := &Call{ID: id, Callee: "EMIT", Binds: []Bind{{Param: "i0", E: Lit(hx.JInt(int64(100 + j)))}}}
		if ownFlag[j] {
			c.Disabled = &Exp{K: "ref", Src: "self", Out: fmt.Sprintf("skip%d", j)}
			stats["chain_sibling_with_flag"]++
		}
		inner.Calls = append(inner.Calls, c)
		on := fmt.Sprintf("r%d", j)
		outs = append(outs, Field{on, TInt})
		inner.Ret = append(inner.Ret, Bind{Param: on, E: &Exp{K: "ref", Src: id, Out: "o0"}})
	}
	inner.Outs = outs
	p.Pipelines = append(p.Pipelines, inner)
	// the chain, from the inside out: L(k) calls L(k+1) disabled by off(k)
	prev := inner
	for k := depth - 1; k >= 1; k-- {
		pl := &Pipeline{Name: fmt.Sprintf("L%d", k), Outs: outs}
		for q := k; q < depth; q++ {
			pl.Ins = append(pl.Ins, Field{offs[q], TBool})
		}
		for _, s := range skips {
			pl.Ins = append(pl.Ins, Field{s, TBool})
		}
		c := &Call{ID: prev.Name, Callee: prev.Name, Disabled: &Exp{K: "ref", Src: "self", Out: offs[k]}}
		for _, in := range prev.Ins {
			c.Binds = append(c.Binds, Bind{Param: in.Name, E: &Exp{K: "ref", Src: "self", Out: in.Name}})
		}
		pl.Calls = []*Call{c}
		for _, o := range outs {
			pl.Ret = append(pl.Ret, Bind{Param: o.Name, E: &Exp{K: "ref", Src: prev.Name, Out: o.Name}})
		}
		p.Pipelines = append(p.Pipelines, pl)
		prev = pl
	}
	// top: FLAGS, then the outermost level disabled by off0
	top := &Pipeline{Name: "TOPL", Ins: []Field{{"seed", TInt}}, Outs: outs}
	top.Calls = append(top.Calls, &Call{ID: "FLAGS", Callee: "FLAGS",
		Binds: []Bind{{Param: "i0", E: &Exp{K: "ref", Src: "self", Out: "seed"}}}})
	c := &Call{ID: prev.Name, Callee: prev.Name, Disabled: &Exp{K: "ref", Src: "FLAGS", Out: offs[0]}}
	for _, in := range prev.Ins {
		c.Binds = append(c.Binds, Bind{Param: in.Name, E: &Exp{K: "ref", Src: "FLAGS", Out: in.Name}})
	}
	top.Calls = append(top.Calls, c)
	for _, o := range outs {
		top.Ret = append(top.Ret, Bind{Param: o.Name, E: &Exp{K: "ref", Src: prev.Name, Out: o.Name}})
	}
	p.Pipelines = append(p.Pipelines, top)
	p.Top = &Call{ID: "TOPL", Callee: "TOPL", Binds: []Bind{{Param: "seed", E: Lit(hx.JInt(int64(r.Intn(1000))))}}}
	return p, stats
}

func boolOf(e *SExp) bool {
	return e != nil && e.Lit.JSON() == "true"
}
