// Package pgen generates core-MRO programs in the representation of
// coq/Mro/Sem.v and prints each one three ways: MRO source text for the real
// compiler, a Gallina term for the Coq model, and the stage-behaviour spec
// interpreted by the harness's stage executable (and by Sem's spec oracle).
package pgen

import (
	"fmt"
	"math/big"
	"sort"
	"strings"

	"verifharness/internal/hx"
)

// ---------------------------------------------------------------- types

type Ty struct {
	K    string // int float bool string file map struct arr tmap
	Name string // struct name
	Elem *Ty
}

var (
	TInt   = &Ty{K: "int"}
	TFloat = &Ty{K: "float"}
	TBool  = &Ty{K: "bool"}
	TStr   = &Ty{K: "string"}
	TFile  = &Ty{K: "file"}
)

func TStruct(n string) *Ty { return &Ty{K: "struct", Name: n} }
func TArr(t *Ty) *Ty       { return &Ty{K: "arr", Elem: t} }
func TMap(t *Ty) *Ty       { return &Ty{K: "tmap", Elem: t} }

func (t *Ty) Eq(o *Ty) bool {
	if t.K != o.K || t.Name != o.Name {
		return false
	}
	if t.Elem != nil {
		return t.Elem.Eq(o.Elem)
	}
	return true
}

// Mro prints the type in MRO syntax.
func (t *Ty) Mro() string {
	switch t.K {
	case "struct":
		return t.Name
	case "arr":
		return t.Elem.Mro() + "[]"
	case "tmap":
		return "map<" + t.Elem.Mro() + ">"
	}
	return t.K
}

func (t *Ty) Coq() string {
	switch t.K {
	case "int":
		return "TInt"
	case "float":
		return "TFloat"
	case "bool":
		return "TBool"
	case "string":
		return "TStr"
	case "file":
		return "TFile"
	case "map":
		return "TMapU"
	case "struct":
		return "(TStruct " + cb(t.Name) + ")"
	case "arr":
		return "(TArr " + t.Elem.Coq() + ")"
	case "tmap":
		return "(TMap " + t.Elem.Coq() + ")"
	}
	panic("bad type")
}

// cb renders a Go string as a Coq bytes term.
func cb(s string) string { return fmt.Sprintf("(unhex \"%x\")", s) }

type Field struct {
	Name string
	T    *Ty
}

func fieldsCoq(fs []Field) string {
	p := make([]string, len(fs))
	for i, f := range fs {
		p[i] = "(" + cb(f.Name) + ", " + f.T.Coq() + ")"
	}
	return "[" + strings.Join(p, "; ") + "]"
}

// ---------------------------------------------------------------- expressions

type Exp struct {
	K     string // lit arr obj ref
	Lit   hx.JV
	Items []*Exp
	Keys  []string
	Src   string // "self" or call id
	Out   string // self: input name; call: output name ("" = whole call)
	Path  []string
}

func Lit(v hx.JV) *Exp { return &Exp{K: "lit", Lit: v} }

func (e *Exp) Mro(ind string) string {
	switch e.K {
	case "lit":
		return e.Lit.JSON()
	case "arr":
		if len(e.Items) == 0 {
			return "[]"
		}
		var b strings.Builder
		b.WriteString("[\n")
		for _, x := range e.Items {
			b.WriteString(ind + "    " + x.Mro(ind+"    ") + ",\n")
		}
		b.WriteString(ind + "]")
		return b.String()
	case "obj", "struct":
		if len(e.Items) == 0 {
			return "{}"
		}
		var b strings.Builder
		b.WriteString("{\n")
		for i, x := range e.Items {
			if e.K == "struct" {
				fmt.Fprintf(&b, "%s    %s: %s,\n", ind, e.Keys[i], x.Mro(ind+"    "))
			} else {
				fmt.Fprintf(&b, "%s    %q: %s,\n", ind, e.Keys[i], x.Mro(ind+"    "))
			}
		}
		b.WriteString(ind + "}")
		return b.String()
	case "ref":
		s := e.Src
		if e.Out != "" {
			s += "." + e.Out
		}
		for _, p := range e.Path {
			s += "." + p
		}
		return s
	}
	panic("bad exp")
}

func (e *Exp) Coq() string {
	switch e.K {
	case "lit":
		return "(ELit " + e.Lit.Coq() + ")"
	case "arr":
		p := make([]string, len(e.Items))
		for i, x := range e.Items {
			p[i] = x.Coq()
		}
		return "(EArr [" + strings.Join(p, "; ") + "])"
	case "obj", "struct":
		p := make([]string, len(e.Items))
		for i, x := range e.Items {
			p[i] = "(" + cb(e.Keys[i]) + ", " + x.Coq() + ")"
		}
		return "(EObj [" + strings.Join(p, "; ") + "])"
	case "ref":
		path := make([]string, len(e.Path))
		for i, x := range e.Path {
			path[i] = cb(x)
		}
		src := ""
		if e.Src == "self" {
			src = "(RSelf " + cb(e.Out) + ")"
		} else if e.Out == "" {
			src = "(RCall " + cb(e.Src) + " None)"
		} else {
			src = "(RCall " + cb(e.Src) + " (Some " + cb(e.Out) + "))"
		}
		return "(ERef " + src + " [" + strings.Join(path, "; ") + "])"
	}
	panic("bad exp")
}

// ---------------------------------------------------------------- program

type Bind struct {
	Param string
	Split bool
	E     *Exp
}

type Call struct {
	ID, Callee string
	Mapped     string // "" arr map
	Binds      []Bind
	Disabled   *Exp
	Volatile   bool
	Preflight  bool
	Local      bool
}

// Stage behaviour: a small expression language over the arguments.
type SExp struct {
	K     string // lit arg arr obj chunkouts
	Lit   hx.JV
	Name  string
	Items []*SExp
	Keys  []string
}

type Stage struct {
	Name                string
	Ins, Outs           []Field
	Split               bool
	ChunkIns, ChunkOuts []Field
	// behaviour
	MainOuts   map[string]*SExp // non-split: outs; split: join outs
	ChunkFrom  string           // split: one chunk per element of this array arg (chunk in ChunkIns[0])
	ChunkConst []hx.JV          // split: otherwise these chunk definitions
	ChunkOutsB map[string]*SExp // chunk outs
}

type Pipeline struct {
	Name      string
	Ins, Outs []Field
	Calls     []*Call
	Ret       []Bind
}

type StructDef struct {
	Name   string
	Fields []Field
}

type Program struct {
	Structs   []StructDef
	Stages    []*Stage
	Pipelines []*Pipeline
	Top       *Call
	StageCmd  string // command prefix for src comp
	// Delays: milliseconds a stage's jobs sleep before finishing (by stage
	// name), for families whose point is who finishes first
	Delays map[string]int
}

// ---------------------------------------------------------------- MRO text

func paramsMro(b *strings.Builder, kind string, fs []Field) {
	for _, f := range fs {
		fmt.Fprintf(b, "    %-3s %s %s,\n", kind, f.T.Mro(), f.Name)
	}
}

func (c *Call) mro(b *strings.Builder) {
	b.WriteString("    ")
	if c.Mapped != "" {
		b.WriteString("map ")
	}
	b.WriteString("call " + c.Callee)
	if c.ID != c.Callee {
		b.WriteString(" as " + c.ID)
	}
	b.WriteString("(\n")
	for _, bd := range c.Binds {
		sp := ""
		if bd.Split {
			sp = "split "
		}
		fmt.Fprintf(b, "        %s = %s%s,\n", bd.Param, sp, bd.E.Mro("        "))
	}
	b.WriteString("    )")
	var mods []string
	if c.Disabled != nil {
		mods = append(mods, "disabled = "+c.Disabled.Mro(""))
	}
	if c.Volatile {
		mods = append(mods, "volatile = true")
	}
	if c.Preflight {
		mods = append(mods, "preflight = true")
	}
	if c.Local {
		mods = append(mods, "local = true")
	}
	if len(mods) > 0 {
		b.WriteString(" using (\n")
		for _, m := range mods {
			b.WriteString("        " + m + ",\n")
		}
		b.WriteString("    )")
	}
	b.WriteString("\n\n")
}

// Mro renders the whole program as MRO source.
func (p *Program) Mro() string {
	var b strings.Builder
	for _, s := range p.Structs {
		fmt.Fprintf(&b, "struct %s(\n", s.Name)
		for _, f := range s.Fields {
			fmt.Fprintf(&b, "    %s %s,\n", f.T.Mro(), f.Name)
		}
		b.WriteString(")\n\n")
	}
	for _, s := range p.Stages {
		fmt.Fprintf(&b, "stage %s(\n", s.Name)
		paramsMro(&b, "in", s.Ins)
		paramsMro(&b, "out", s.Outs)
		fmt.Fprintf(&b, "    src comp \"%s %s\",\n)", p.StageCmd, s.Name)
		if s.Split {
			b.WriteString(" split (\n")
			paramsMro(&b, "in", s.ChunkIns)
			paramsMro(&b, "out", s.ChunkOuts)
			b.WriteString(")")
		}
		b.WriteString("\n\n")
	}
	for _, pl := range p.Pipelines {
		fmt.Fprintf(&b, "pipeline %s(\n", pl.Name)
		paramsMro(&b, "in", pl.Ins)
		paramsMro(&b, "out", pl.Outs)
		b.WriteString(")\n{\n")
		for _, c := range pl.Calls {
			c.mro(&b)
		}
		b.WriteString("    return (\n")
		for _, r := range pl.Ret {
			fmt.Fprintf(&b, "        %s = %s,\n", r.Param, r.E.Mro("        "))
		}
		b.WriteString("    )\n}\n\n")
	}
	// top-level call
	fmt.Fprintf(&b, "call %s(\n", p.Top.Callee)
	for _, bd := range p.Top.Binds {
		fmt.Fprintf(&b, "    %s = %s,\n", bd.Param, bd.E.Mro("    "))
	}
	b.WriteString(")\n")
	return b.String()
}

// ---------------------------------------------------------------- Coq term

func (c *Call) Coq() string {
	binds := make([]string, len(c.Binds))
	for i, bd := range c.Binds {
		binds[i] = fmt.Sprintf("(%s, (%v, %s))", cb(bd.Param), bd.Split, bd.E.Coq())
	}
	mapped := "None"
	switch c.Mapped {
	case "arr":
		mapped = "(Some MArr)"
	case "map":
		mapped = "(Some MMap)"
	}
	dis := "None"
	if c.Disabled != nil {
		dis = "(Some " + c.Disabled.Coq() + ")"
	}
	return fmt.Sprintf("{| c_id := %s; c_callee := %s; c_mapped := %s; c_binds := [%s]; c_disabled := %s; c_preflight := %v |}",
		cb(c.ID), cb(c.Callee), mapped, strings.Join(binds, "; "), dis, c.Preflight)
}

func (s *SExp) Coq() string {
	switch s.K {
	case "lit":
		return "(SLit " + s.Lit.Coq() + ")"
	case "arg":
		return "(SArg " + cb(s.Name) + ")"
	case "chunkouts":
		return "(SChunkOuts " + cb(s.Name) + ")"
	case "arr":
		p := make([]string, len(s.Items))
		for i, x := range s.Items {
			p[i] = x.Coq()
		}
		return "(SArr [" + strings.Join(p, "; ") + "])"
	case "obj":
		p := make([]string, len(s.Items))
		for i, x := range s.Items {
			p[i] = "(" + cb(s.Keys[i]) + ", " + x.Coq() + ")"
		}
		return "(SObj [" + strings.Join(p, "; ") + "])"
	}
	panic("bad sexp")
}

func sexpMapCoq(fs []Field, m map[string]*SExp) string {
	p := make([]string, 0, len(fs))
	for _, f := range fs {
		p = append(p, "("+cb(f.Name)+", "+m[f.Name].Coq()+")")
	}
	return "[" + strings.Join(p, "; ") + "]"
}

// Coq renders (program, behaviour spec) as Gallina terms.
func (p *Program) Coq() (prog string, spec string) {
	var ss []string
	for _, s := range p.Structs {
		ss = append(ss, "("+cb(s.Name)+", "+fieldsCoq(s.Fields)+")")
	}
	var cs, sp []string
	for _, s := range p.Stages {
		split := "None"
		if s.Split {
			split = "(Some (" + fieldsCoq(s.ChunkIns) + ", " + fieldsCoq(s.ChunkOuts) + "))"
		}
		cs = append(cs, fmt.Sprintf("(%s, CStage {| st_ins := %s; st_outs := %s; st_split := %s |})",
			cb(s.Name), fieldsCoq(s.Ins), fieldsCoq(s.Outs), split))
		chunks := "(ChunksConst [])"
		couts := "[]"
		if s.Split {
			if s.ChunkFrom != "" {
				chunks = "(ChunksFrom " + cb(s.ChunkFrom) + " " + cb(s.ChunkIns[0].Name) + ")"
			} else {
				d := make([]string, len(s.ChunkConst))
				for i, x := range s.ChunkConst {
					d[i] = x.Coq()
				}
				chunks = "(ChunksConst [" + strings.Join(d, "; ") + "])"
			}
			couts = sexpMapCoq(s.ChunkOuts, s.ChunkOutsB)
		}
		sp = append(sp, fmt.Sprintf("(%s, {| sb_outs := %s; sb_chunks := %s; sb_chunk_outs := %s |})",
			cb(s.Name), sexpMapCoq(s.Outs, s.MainOuts), chunks, couts))
	}
	for _, pl := range p.Pipelines {
		calls := make([]string, len(pl.Calls))
		for i, c := range pl.Calls {
			calls[i] = c.Coq()
		}
		ret := make([]string, len(pl.Ret))
		for i, r := range pl.Ret {
			ret[i] = "(" + cb(r.Param) + ", " + r.E.Coq() + ")"
		}
		cs = append(cs, fmt.Sprintf("(%s, CPipe {| p_ins := %s; p_outs := %s; p_calls := [%s]; p_ret := [%s] |})",
			cb(pl.Name), fieldsCoq(pl.Ins), fieldsCoq(pl.Outs), strings.Join(calls, ";\n    "), strings.Join(ret, "; ")))
	}
	prog = fmt.Sprintf("{| pr_structs := [%s];\n  pr_callables := [%s];\n  pr_top := %s |}",
		strings.Join(ss, "; "), strings.Join(cs, ";\n  "), p.Top.Coq())
	spec = "[" + strings.Join(sp, ";\n  ") + "]"
	return
}

// ---------------------------------------------------------------- behaviour spec (JSON for the stage executable)

func (s *SExp) specJSON() interface{} {
	switch s.K {
	case "lit":
		return map[string]interface{}{"lit": s.Lit.Enc()}
	case "arg":
		return map[string]interface{}{"arg": s.Name}
	case "chunkouts":
		return map[string]interface{}{"chunkouts": s.Name}
	case "arr":
		a := make([]interface{}, len(s.Items))
		for i, x := range s.Items {
			a[i] = x.specJSON()
		}
		return map[string]interface{}{"arr": a}
	case "obj":
		a := make([]interface{}, len(s.Items))
		for i, x := range s.Items {
			a[i] = []interface{}{s.Keys[i], x.specJSON()}
		}
		return map[string]interface{}{"obj": a}
	}
	panic("bad sexp")
}

// Spec returns the behaviour table as a JSON-able value.
func (p *Program) Spec() map[string]interface{} {
	stages := map[string]interface{}{}
	for _, s := range p.Stages {
		m := map[string]interface{}{"split": s.Split}
		outs := map[string]interface{}{}
		for k, v := range s.MainOuts {
			outs[k] = v.specJSON()
		}
		m["outs"] = outs
		if s.Split {
			if s.ChunkFrom != "" {
				m["chunk_from"] = s.ChunkFrom
				m["chunk_in"] = s.ChunkIns[0].Name
			} else {
				d := make([]string, len(s.ChunkConst))
				for i, x := range s.ChunkConst {
					d[i] = x.Enc()
				}
				m["chunk_const"] = d
			}
			co := map[string]interface{}{}
			for k, v := range s.ChunkOutsB {
				co[k] = v.specJSON()
			}
			m["chunk_outs"] = co
		}
		stages[s.Name] = m
	}
	out := map[string]interface{}{"stages": stages}
	if len(p.Delays) > 0 {
		out["delays"] = p.Delays
	}
	return out
}

func bigInt(i int64) *big.Int { return big.NewInt(i) }

func sortedKeys(m map[string]*SExp) []string {
	var ks []string
	for k := range m {
		ks = append(ks, k)
	}
	sort.Strings(ks)
	return ks
}

// MappedPipelinePaths lists the call paths (dot-joined, from the top call) of
// every mapped call of a pipeline, wherever it is reached.
func (p *Program) MappedPipelinePaths() []string {
	pls := map[string]*Pipeline{}
	for _, pl := range p.Pipelines {
		pls[pl.Name] = pl
	}
	var out []string
	var walk func(pl *Pipeline, path string, depth int)
	walk = func(pl *Pipeline, path string, depth int) {
		if depth > 8 {
			return
		}
		for _, c := range pl.Calls {
			callee, ok := pls[c.Callee]
			if !ok {
				continue
			}
			cp := path + "." + c.ID
			if c.Mapped != "" {
				out = append(out, cp)
			}
			walk(callee, cp, depth+1)
		}
	}
	if top, ok := pls[p.Top.Callee]; ok {
		walk(top, p.Top.ID, 0)
	}
	return out
}
