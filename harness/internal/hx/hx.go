// Package hx: shared helpers for the verification harness (PRNG, hex lines).
package hx

import (
	"bufio"
	"encoding/hex"
	"fmt"
	"io"
	"os"
	"strings"
)

// Rng is splitmix64: every random choice of a run derives from one state.
type Rng struct{ s uint64 }

func NewRng(seed uint64) *Rng {
	// scramble the seed so that neighbouring seeds give unrelated streams
	r := &Rng{s: seed ^ 0x5DEECE66D1234567}
	r.s = r.Next() ^ (seed << 32)
	return r
}

func (r *Rng) Next() uint64 {
	r.s += 0x9E3779B97F4A7C15
	z := r.s
	z = (z ^ (z >> 30)) * 0xBF58476D1CE4E5B9
	z = (z ^ (z >> 27)) * 0x94D049BB133111EB
	return z ^ (z >> 31)
}

// Intn returns a value in [0,n).
func (r *Rng) Intn(n int) int {
	if n <= 0 {
		return 0
	}
	return int(r.Next() % uint64(n))
}

func (r *Rng) Bool() bool { return r.Next()&1 == 1 }

// Pick returns one element of xs.
func Pick[T any](r *Rng, xs []T) T { return xs[r.Intn(len(xs))] }

// H hex-encodes; the empty string is "-" so that fields never vanish.
func H(s string) string {
	if s == "" {
		return "-"
	}
	return hex.EncodeToString([]byte(s))
}

// U decodes H.
func U(s string) string {
	if s == "-" {
		return ""
	}
	b, err := hex.DecodeString(s)
	if err != nil {
		panic(fmt.Sprintf("bad hex field %q: %v", s, err))
	}
	return string(b)
}

// Lines calls f on every non-empty line of r (fields split on single spaces).
func Lines(r io.Reader, f func(fields []string)) {
	sc := bufio.NewScanner(r)
	sc.Buffer(make([]byte, 1<<20), 1<<28)
	for sc.Scan() {
		t := sc.Text()
		if t == "" {
			continue
		}
		f(strings.Split(t, " "))
	}
	if err := sc.Err(); err != nil {
		fmt.Fprintln(os.Stderr, "read error:", err)
		os.Exit(2)
	}
}

// Out is a buffered stdout writer; call Flush at exit.
var Out = bufio.NewWriterSize(os.Stdout, 1<<20)
