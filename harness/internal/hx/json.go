package hx

import (
	"bytes"
	"encoding/hex"
	"encoding/json"
	"fmt"
	"io"
	"math/big"
	"sort"
	"strconv"
	"strings"
)

// JV is an order- and duplicate-preserving JSON value with exact decimal
// numbers (M * 10^E, normalised), mirroring coq/Json/Json.v.
type JV struct {
	K byte // 'n' 't' 'f' '#' 's' '[' '{'
	M *big.Int
	E int64
	S string
	A []JV
	O []JKV
}

type JKV struct {
	Key string
	Val JV
}

func JNull() JV        { return JV{K: 'n'} }
func JBool(b bool) JV  { return JV{K: map[bool]byte{true: 't', false: 'f'}[b]} }
func JStr(s string) JV { return JV{K: 's', S: s} }
func JArr(a []JV) JV   { return JV{K: '[', A: a} }
func JObj(o []JKV) JV  { return JV{K: '{', O: o} }
func JInt(i int64) JV  { return JNum(big.NewInt(i), 0) }
func JNum(m *big.Int, e int64) JV {
	m = new(big.Int).Set(m)
	if m.Sign() == 0 {
		return JV{K: '#', M: m, E: 0}
	}
	ten := big.NewInt(10)
	r := new(big.Int)
	for {
		q, rr := new(big.Int).QuoRem(m, ten, r)
		if rr.Sign() != 0 {
			break
		}
		m = q
		e++
	}
	return JV{K: '#', M: m, E: e}
}

// ParseNumber converts a JSON number literal to an exact decimal.
func ParseNumber(lit string) (JV, error) {
	mant, exp := lit, int64(0)
	if i := strings.IndexAny(lit, "eE"); i >= 0 {
		mant = lit[:i]
		x, err := strconv.ParseInt(lit[i+1:], 10, 64)
		if err != nil {
			return JV{}, err
		}
		exp = x
	}
	if i := strings.IndexByte(mant, '.'); i >= 0 {
		exp -= int64(len(mant) - i - 1)
		mant = mant[:i] + mant[i+1:]
	}
	m, ok := new(big.Int).SetString(mant, 10)
	if !ok {
		return JV{}, fmt.Errorf("bad number %q", lit)
	}
	return JNum(m, exp), nil
}

// ParseJSON parses one JSON value preserving key order and duplicates.
func ParseJSON(b []byte) (JV, error) {
	dec := json.NewDecoder(bytes.NewReader(b))
	dec.UseNumber()
	v, err := parseJV(dec)
	if err != nil {
		return JV{}, err
	}
	if _, err := dec.Token(); err != io.EOF {
		return JV{}, fmt.Errorf("trailing data")
	}
	return v, nil
}

func parseJV(dec *json.Decoder) (JV, error) {
	tok, err := dec.Token()
	if err != nil {
		return JV{}, err
	}
	switch t := tok.(type) {
	case nil:
		return JNull(), nil
	case bool:
		return JBool(t), nil
	case json.Number:
		return ParseNumber(string(t))
	case string:
		return JStr(t), nil
	case json.Delim:
		switch t {
		case '[':
			a := []JV{}
			for dec.More() {
				v, err := parseJV(dec)
				if err != nil {
					return JV{}, err
				}
				a = append(a, v)
			}
			if _, err := dec.Token(); err != nil {
				return JV{}, err
			}
			return JArr(a), nil
		case '{':
			o := []JKV{}
			for dec.More() {
				kt, err := dec.Token()
				if err != nil {
					return JV{}, err
				}
				v, err := parseJV(dec)
				if err != nil {
					return JV{}, err
				}
				o = append(o, JKV{kt.(string), v})
			}
			if _, err := dec.Token(); err != nil {
				return JV{}, err
			}
			return JObj(o), nil
		}
	}
	return JV{}, fmt.Errorf("unexpected token %v", tok)
}

// Canon sorts object keys (bytewise, last duplicate wins), recursively.
func (v JV) Canon() JV {
	switch v.K {
	case '[':
		a := make([]JV, len(v.A))
		for i, x := range v.A {
			a[i] = x.Canon()
		}
		return JArr(a)
	case '{':
		last := map[string]JV{}
		var keys []string
		for _, kv := range v.O {
			if _, ok := last[kv.Key]; !ok {
				keys = append(keys, kv.Key)
			}
			last[kv.Key] = kv.Val
		}
		sort.Strings(keys)
		o := make([]JKV, len(keys))
		for i, k := range keys {
			o[i] = JKV{k, last[k].Canon()}
		}
		return JObj(o)
	}
	return v
}

// Enc is the one-field transport encoding (no spaces):
// n t f  #<m>e<e>;  s<hex>;  [ ... ]  { <hexkey>:<value> ... }
func (v JV) Enc() string {
	var b strings.Builder
	v.enc(&b)
	return b.String()
}

func (v JV) enc(b *strings.Builder) {
	switch v.K {
	case 'n', 't', 'f':
		b.WriteByte(v.K)
	case '#':
		fmt.Fprintf(b, "#%se%d;", v.M.String(), v.E)
	case 's':
		b.WriteByte('s')
		b.WriteString(hex.EncodeToString([]byte(v.S)))
		b.WriteByte(';')
	case '[':
		b.WriteByte('[')
		for _, x := range v.A {
			x.enc(b)
		}
		b.WriteByte(']')
	case '{':
		b.WriteByte('{')
		for _, kv := range v.O {
			b.WriteString(hex.EncodeToString([]byte(kv.Key)))
			b.WriteByte(':')
			kv.Val.enc(b)
		}
		b.WriteByte('}')
	}
}

// Coq renders the value as a Gallina term of type json (needs
// `From Coq Require Import String.` and Martian.Json.Json, Lib.Bytes).
func (v JV) Coq() string {
	var b strings.Builder
	v.coq(&b)
	return b.String()
}

func coqZ(m *big.Int) string { return "(" + m.String() + ")%Z" }

func (v JV) coq(b *strings.Builder) {
	switch v.K {
	case 'n':
		b.WriteString("JNull")
	case 't':
		b.WriteString("(JBool true)")
	case 'f':
		b.WriteString("(JBool false)")
	case '#':
		fmt.Fprintf(b, "(JNum %s (%d)%%Z)", coqZ(v.M), v.E)
	case 's':
		fmt.Fprintf(b, "(JStr (unhex \"%s\"))", hex.EncodeToString([]byte(v.S)))
	case '[':
		b.WriteString("(JArr [")
		for i, x := range v.A {
			if i > 0 {
				b.WriteString("; ")
			}
			x.coq(b)
		}
		b.WriteString("])")
	case '{':
		b.WriteString("(JObj [")
		for i, kv := range v.O {
			if i > 0 {
				b.WriteString("; ")
			}
			fmt.Fprintf(b, "(unhex \"%s\", ", hex.EncodeToString([]byte(kv.Key)))
			kv.Val.coq(b)
			b.WriteString(")")
		}
		b.WriteString("])")
	}
}

// Go renders the value as JSON text (numbers as plain decimals / exponents).
func (v JV) JSON() string {
	var b strings.Builder
	v.json(&b)
	return b.String()
}

func (v JV) json(b *strings.Builder) {
	switch v.K {
	case 'n':
		b.WriteString("null")
	case 't':
		b.WriteString("true")
	case 'f':
		b.WriteString("false")
	case '#':
		switch {
		case v.E == 0:
			b.WriteString(v.M.String())
		case v.E > 0 && v.E <= 30:
			b.WriteString(v.M.String())
			b.WriteString(strings.Repeat("0", int(v.E)))
		case v.E < 0 && v.E >= -30:
			digits := new(big.Int).Abs(v.M).String()
			for int64(len(digits)) <= -v.E {
				digits = "0" + digits
			}
			if v.M.Sign() < 0 {
				b.WriteByte('-')
			}
			b.WriteString(digits[:int64(len(digits))+v.E])
			b.WriteByte('.')
			b.WriteString(digits[int64(len(digits))+v.E:])
		default:
			fmt.Fprintf(b, "%se%d", v.M.String(), v.E)
		}
	case 's':
		s, _ := json.Marshal(v.S)
		b.Write(s)
	case '[':
		b.WriteByte('[')
		for i, x := range v.A {
			if i > 0 {
				b.WriteByte(',')
			}
			x.json(b)
		}
		b.WriteByte(']')
	case '{':
		b.WriteByte('{')
		for i, kv := range v.O {
			if i > 0 {
				b.WriteByte(',')
			}
			s, _ := json.Marshal(kv.Key)
			b.Write(s)
			b.WriteByte(':')
			kv.Val.json(b)
		}
		b.WriteByte('}')
	}
}

// DecodeJV parses the transport encoding produced by Enc.
func DecodeJV(s string) JV {
	pos := 0
	var value func() JV
	until := func(c byte) string {
		st := pos
		for pos < len(s) && s[pos] != c {
			pos++
		}
		r := s[st:pos]
		pos++
		return r
	}
	unhex := func(h string) string {
		b, err := hex.DecodeString(h)
		if err != nil {
			panic("bad transport json")
		}
		return string(b)
	}
	value = func() JV {
		c := s[pos]
		pos++
		switch c {
		case 'n':
			return JNull()
		case 't':
			return JBool(true)
		case 'f':
			return JBool(false)
		case '#':
			body := until(';')
			i := strings.IndexByte(body, 'e')
			m, _ := new(big.Int).SetString(body[:i], 10)
			e, _ := strconv.ParseInt(body[i+1:], 10, 64)
			return JNum(m, e)
		case 's':
			return JStr(unhex(until(';')))
		case '[':
			a := []JV{}
			for s[pos] != ']' {
				a = append(a, value())
			}
			pos++
			return JArr(a)
		case '{':
			o := []JKV{}
			for s[pos] != '}' {
				k := unhex(until(':'))
				o = append(o, JKV{k, value()})
			}
			pos++
			return JObj(o)
		}
		panic("bad transport json")
	}
	return value()
}
